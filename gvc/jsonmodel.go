package main

// Assumed law of encoding/json (DESIGN §3.1): json.Unmarshal(d, &S) succeeds iff jok$T(d); on
// success every exported field with JSON key k that is present in d (jhas(d,k)) is set to the
// value jdec$<type>(d, k); absent keys and unexported fields keep their previous value. The
// field/key/type table is read from go/types on every run, so changing a struct tag changes
// the model. Decoded values are uninterpreted functions of (document bytes, key, Go type).

import (
	"fmt"
	"go/token"
	"go/types"
	"golang.org/x/tools/go/ssa"
	"reflect"
	"strings"
)

const jsonLaw = "encoding/json: Unmarshal into a struct sets exactly the fields whose JSON key is present to a value that is a function of (document, key, field type), leaves the others, and fails or succeeds as a function of (document, target type); custom UnmarshalJSON methods are covered by the same law; decoded maps and slices are containers allocated by the decoder (no caller-visible object is written), nested maps are nil or pairwise distinct; a document that decodes successfully is lexically well-formed JSON (lexOK)"

// jsonKey returns the JSON key of a struct field ("" = skipped).
func jsonKey(f *types.Var, tag string) (string, bool) {
	if !f.Exported() {
		return "", false
	}
	name := f.Name()
	if t, ok := reflect.StructTag(tag).Lookup("json"); ok {
		parts := strings.Split(t, ",")
		if parts[0] == "-" && len(parts) == 1 {
			return "", false
		}
		if parts[0] != "" {
			name = parts[0]
		}
	}
	return name, true
}

func (x *Exec) jhas(d *Term, key string) *Term {
	return x.ctx.App("jhas", BoolSort, d, x.strLit(key))
}

func (x *Exec) jok(t types.Type, d *Term) *Term {
	return x.ctx.App("jok$"+sanitize(canonKey(t)), BoolSort, d)
}

// jdecode builds the decoded value of Go type t for key in document d.
func (x *Exec) jdecode(t types.Type, d *Term, key string) *Value {
	k := x.strLit(key)
	base := "jdec$" + sanitize(canonKey(t))
	v := buildValue(t, func(l Leaf) *Term {
		return x.ctx.App(base+"$"+sanitize(l.Path), l.Sort, d, k)
	})
	if termsHaveBoundVar([]*Term{d}) {
		// inside a quantifier of a specification: no facts can be recorded about a term with a bound
		// variable; decoded slices start at offset 0 structurally (same stated assumption)
		x.zeroOffsetsStructural(v)
		return v
	}
	x.facts = append(x.facts, x.typeInv(v))
	x.assumeZeroOffsetsQuiet(v)
	x.boundRefs(v, x.allocNow())
	return v
}

func (x *Exec) assumeZeroOffsetsQuiet(v *Value) {
	switch v.K {
	case KSlice:
		x.facts = append(x.facts, Eq(v.Off, IntLit(0)))
	case KStruct, KTuple:
		for _, f := range v.Fields {
			x.assumeZeroOffsetsQuiet(f)
		}
	}
}

// jsonMerge computes the value of a struct of type t after decoding d into `old`.
func (x *Exec) jsonMerge(t types.Type, d *Term, old *Value) *Value {
	return x.jsonMergeSh(t, d, old, nil)
}

// jsonMergeSh: shadow holds the keys of fields declared at a shallower embedding depth, which
// encoding/json prefers over a deeper field with the same key (the deeper one is left alone).
func (x *Exec) jsonMergeSh(t types.Type, d *Term, old *Value, shadow map[string]bool) *Value {
	st, ok := under(t).(*types.Struct)
	if !ok {
		return x.jdecode(t, d, "")
	}
	embedded := func(i int) bool {
		f := st.Field(i)
		if !f.Anonymous() {
			return false
		}
		if _, tagged := reflect.StructTag(st.Tag(i)).Lookup("json"); tagged {
			return false
		}
		_, isStruct := under(f.Type()).(*types.Struct)
		return isStruct
	}
	inner := map[string]bool{}
	for k := range shadow {
		inner[k] = true
	}
	for i := 0; i < st.NumFields(); i++ {
		if !embedded(i) {
			if key, use := jsonKey(st.Field(i), st.Tag(i)); use {
				inner[key] = true
			}
		}
	}
	out := &Value{K: KStruct, T: t}
	for i := 0; i < st.NumFields(); i++ {
		f := st.Field(i)
		if embedded(i) {
			out.Fields = append(out.Fields, x.jsonMergeSh(f.Type(), d, old.Fields[i], inner))
			continue
		}
		key, use := jsonKey(f, st.Tag(i))
		if !use || shadow[key] {
			out.Fields = append(out.Fields, old.Fields[i])
			continue
		}
		dec := x.jdecode(f.Type(), d, key)
		has := x.jhas(d, key)
		out.Fields = append(out.Fields, x.iteValueLoose(has, dec, old.Fields[i]))
	}
	return out
}

func (x *Exec) iteValueLoose(c *Term, a, b *Value) *Value {
	if a.K == KPtr || b.K == KPtr || a.K == KFunc {
		return iteValue(c, a, b)
	}
	return zipLeaves(a, b, func(p, q *Term) *Term { return Ite(c, p, q) })
}

// jsonUnmarshal models json.Unmarshal(data, v).
func (x *Exec) jsonUnmarshal(fr *Frame, st *State, args []*Value, resT types.Type, pos token.Pos) *Value {
	x.trusted[jsonLaw] = true
	data, target := args[0], args[1]
	if target.K != KIface || target.Boxed == nil || target.Boxed.K != KPtr {
		// unknown target: everything reachable may change
		x.unmod["json.Unmarshal into a target of unknown type"] = true
		x.havocAll(st)
		return x.freshResult(st, resT, "json_err")
	}
	d := x.bytesToStr(st, data)
	x.jsonLexFact(st, d, resT)
	ptr := target.Boxed
	t := derefType(ptr)
	x.safetyOblige(fr, st, "nil", "json.Unmarshal into nil pointer", Neq(ptrBase(ptr.P, x), x.null()), pos)
	// Unmarshal into **S: the existing S is filled (a new one is allocated when the pointer is nil)
	if pt, isPtr := under(t).(*types.Pointer); isPtr {
		if _, isStruct := under(pt.Elem()).(*types.Struct); isStruct {
			inner := x.load(st, ptr.P, t)
			if inner.K == KPtr && inner.P.Cell == nil && !inner.P.Elem && len(inner.P.Path) == 0 {
				fresh := x.freshRef(st, "json_new")
				base := Ite(Neq(inner.P.Base, x.null()), inner.P.Base, fresh)
				np := &Pointer{Base: x.name("jp", base), ObjT: pt.Elem()}
				st2 := pt.Elem()
				ok := x.jok(st2, d)
				oldS := x.load(st, np, st2)
				oldS = x.iteValueLoose(Neq(inner.P.Base, x.null()), oldS, x.zeroValue(st2))
				dec := x.jsonMerge(st2, d, oldS)
				junk := x.freshValue("json_partial", st2, st.guard)
				x.boundRefs(junk, x.allocNow())
				x.store(st, np, x.iteValueLoose(ok, dec, junk))
				x.jsonContainerFacts(st, dec)
				x.store(st, ptr.P, &Value{K: KPtr, T: t, P: np})
				errV := x.freshValue("json_err", resT, st.guard)
				x.assume(st, Eq(Eq(errV.Tag, IntLit(0)), ok))
				x.assume(st, Implies(ok, x.ctx.App("jvalid", BoolSort, d)))
				return errV
			}
		}
	}
	ok := x.jok(t, d)
	old := x.load(st, ptr.P, t)
	dec := x.jsonMerge(t, d, old)
	// on failure the target may be partially written: unconstrained
	junk := x.freshValue("json_partial", t, st.guard)
	x.boundRefs(junk, x.allocNow())
	x.store(st, ptr.P, x.iteValueLoose(ok, dec, junk))
	x.jsonContainerFacts(st, dec)
	x.jsonContainerFacts(st, junk) // what a failed decode leaves behind was allocated by the decoder as well
	errV := x.freshValue("json_err", resT, st.guard)
	x.assume(st, Eq(Eq(errV.Tag, IntLit(0)), ok))
	x.assume(st, Implies(ok, x.ctx.App("jvalid", BoolSort, d)))
	return errV
}

// jsonContainerFacts: the decoder allocates every nested container separately, so the inner
// maps held by a decoded map[string]C are nil (JSON null) or pairwise distinct, distinct from the
// outer map and exist now (part of the assumed decoding law).
func (x *Exec) jsonContainerFacts(st *State, v *Value) {
	switch v.K {
	case KStruct, KTuple:
		for _, f := range v.Fields {
			x.jsonContainerFacts(st, f)
		}
		return
	case KSlice:
		return
	}
	if _, isMap := under(v.T).(*types.Map); isMap && v.Term != nil {
		x.jsonFreshUsed = true
		x.facts = append(x.facts, Or(Eq(v.Term, x.null()), x.ctx.App("jsonFresh", BoolSort, v.Term)))
	}
	m, ok := under(v.T).(*types.Map)
	if !ok || v.Term == nil {
		return
	}
	if len(leavesOf(m.Key())) != 1 {
		return
	}
	var refLeaf string
	switch under(m.Elem()).(type) {
	case *types.Map:
		refLeaf = ""
	default:
		return
	}
	mi := x.mapInfoOf(v.T)
	ks := mi.kLeaves[0].Sort
	pres := x.mapPresent(st, v.T, v.Term)
	var path string
	for _, l := range leavesOf(mi.vT) {
		path = l.Path
	}
	_ = refLeaf
	vals := Select(x.heapArr(st, "MV:"+mi.key+"/"+path, ArraySort(RefSort, ArraySort(ks, RefSort))), v.Term)
	pn := x.name("jmapP", pres)
	vn := x.name("jmapV", vals)
	k1 := BoundVar("jk1", ks)
	k2 := BoundVar("jk2", ks)
	x.facts = append(x.facts,
		Forall([]*Term{k1, k2}, Implies(And(Select(pn, k1), Select(pn, k2), Neq(k1, k2), Neq(Select(vn, k1), x.null())), Neq(Select(vn, k1), Select(vn, k2))), []*Term{Select(vn, k1), Select(vn, k2)}),
		Forall([]*Term{k1}, Implies(Select(pn, k1), And(Or(Eq(Select(vn, k1), x.null()), x.ctx.App("jsonFresh", BoolSort, Select(vn, k1))), Neq(Select(vn, k1), v.Term), Le(x.ctx.App("allocId", IntSort, Select(vn, k1)), x.allocNow()))), []*Term{Select(vn, k1)}))
}

func ptrBase(p *Pointer, x *Exec) *Term {
	if p.Cell != nil || p.Global != "" {
		return x.ctx.Const("nonnull$cell", RefSort)
	}
	return p.Base
}

// specJSON implements the spec builtins jhas(d,k), jok(T,d), jfield(d,k,T) and typed shorthands.
func (env *SpecEnv) specJSON(name string, args []*Expr) *Value {
	x := env.x
	docOf := func(e *Expr) *Term {
		v := env.eval(e)
		if v.K == KSlice {
			return x.bytesToStr(env.cur, v)
		}
		if v.K == KScalar && v.Term.Sort.Kind == SStr {
			return v.Term
		}
		specFail("%s: document must be bytes or a string", name)
		return nil
	}
	keyOf := func(e *Expr) string {
		if e.Op != "str" {
			specFail("%s: key must be a string literal", name)
		}
		return e.Name
	}
	x.trusted[jsonLaw] = true
	switch name {
	case "jhas":
		return scalar(tBool, x.jhas(docOf(args[0]), keyOf(args[1])))
	case "jok":
		t := env.lookupType(exprTypeName(args[0]))
		if t == nil {
			specFail("jok: unknown type %s", args[0])
		}
		return scalar(tBool, x.jok(t, docOf(args[1])))
	case "jfield":
		t := env.lookupType(exprTypeName(args[2]))
		if t == nil {
			specFail("jfield: unknown type %s", args[2])
		}
		return x.jdecode(t, docOf(args[0]), keyOf(args[1]))
	case "jstr":
		return x.jdecode(tStr, docOf(args[0]), keyOf(args[1]))
	case "jint":
		return x.jdecode(types.Typ[types.Int64], docOf(args[0]), keyOf(args[1]))
	case "jstrs":
		return x.jdecode(types.NewSlice(tStr), docOf(args[0]), keyOf(args[1]))
	case "jmapint":
		return x.jdecode(types.NewMap(tStr, types.Typ[types.Int64]), docOf(args[0]), keyOf(args[1]))
	case "jbool":
		return x.jdecode(tBool, docOf(args[0]), keyOf(args[1]))
	case "jdecoded":
		// jdecoded(T, d, zero): the struct T obtained by decoding d into the zero value
		t := env.lookupType(exprTypeName(args[0]))
		if t == nil {
			specFail("jdecoded: unknown type %s", args[0])
		}
		return x.jsonMerge(t, docOf(args[1]), x.zeroValue(t))
	}
	specFail("unknown JSON builtin %s", name)
	return nil
}

var _ = fmt.Sprintf

// jsonLexFact: a document json.Unmarshal accepts has the lexical shape `lexOK` (when the
// specification vocabulary defines it): part of the assumed decoding law. The fact is recorded
// as lexOK(d) guarded by "some decode of d succeeded" through the uninterpreted jvalid(d).
func (x *Exec) jsonLexFact(st *State, d *Term, resT types.Type) {
	if _, ok := x.db.Funs["lexOK"]; !ok {
		return
	}
	if !x.rootNeedsLex() {
		return // keep the extra quantified fact out of proofs that have no use for it
	}
	env := &SpecEnv{x: x, vars: map[string]*Value{"d$": scalar(tStr, d)}, cur: st, old: st}
	var t *Term
	func() {
		defer func() {
			if r := recover(); r != nil {
				if _, isSpec := r.(specErr); !isSpec {
					panic(r)
				}
			}
		}()
		t = env.evalBool(&Expr{Op: "call", Args: []*Expr{{Op: "ident", Name: "lexOK"}, {Op: "ident", Name: "d$"}}})
	}()
	if t != nil {
		x.facts = append(x.facts, Implies(x.ctx.App("jvalid", BoolSort, d), t))
	}
}

// rootNeedsLex: the function under verification, or a function it calls directly, has a contract
// that speaks about lexOK.
func (x *Exec) rootNeedsLex() bool {
	if x.rootFrame == nil {
		return false
	}
	if x.needsLex != 0 {
		return x.needsLex > 0
	}
	x.needsLex = -1
	mentions := func(c *Contract) bool {
		if c == nil {
			return false
		}
		for _, cl := range c.Requires {
			if strings.Contains(cl.Src, "lexOK") {
				return true
			}
		}
		for _, cl := range c.Ensures {
			if strings.Contains(cl.Src, "lexOK") {
				return true
			}
		}
		return false
	}
	if mentions(x.rootFrame.contract) {
		x.needsLex = 1
		return true
	}
	for _, b := range x.rootFrame.fn.Blocks {
		for _, in := range b.Instrs {
			if call, ok := in.(ssa.CallInstruction); ok {
				if f, ok := call.Common().Value.(*ssa.Function); ok && mentions(x.contractFor(f)) {
					x.needsLex = 1
					return true
				}
			}
		}
	}
	return false
}
