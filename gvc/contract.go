package main

// Contract files and the specification expression language.
//
// Contract lines are comment lines starting with "//@" in files named zz_verif_*.go inside the
// repository packages (build tag verif), or plain lines in /verif/spec/*.gvc. Grammar (line based;
// a clause continues on following lines that start with more indentation than the clause keyword):
//
//   func <name>                       -- function (or "func (T) method" / "func (*T) method")
//     requires <expr>
//     ensures [<label>:] <expr>
//     assigns <lvalue>, ...  | assigns nothing | assigns *
//     loop <N>: invariant [<label>:] <expr>
//     panics when <expr>
//     property <ID>[, <ID>...]
//     inline                         -- never use the contract at call sites, always inline
//   extern <full.Name>(<p1>, <p2>, ...) [(<r1>, ...)]   -- assumed contract of a dependency
//     requires/ensures/assigns as above; "pure" = assigns nothing and deterministic
//   method <pkg.Iface.Method> pure   -- interface method as uninterpreted accessor of the receiver
//   ufun <name>(<Sort>, ...) <Sort>  -- uninterpreted spec function
//   fun <name>(<p> , ...) = <expr>   -- spec macro (expanded at use)
//   axiom [<label>:] <expr>
//   const <name> <Sort>

import (
	"fmt"
	"os"
	"path/filepath"
	"strconv"
	"strings"
	"unicode"
)

type Expr struct {
	Op    string // ident, int, str, bool, call, field, index, slice, unary, binary, cond, forall, exists, old, in
	Name  string
	Args  []*Expr
	Int   string
	Bound []QVar
	Pats  [][]*Expr
	Pos   string
}

type QVar struct{ Name, Type string }

type Clause struct {
	Label string
	E     *Expr
	Src   string
	// Defining: the clause defines an abstract predicate as "what this function computes"
	// (keyword `defines`): assumed at call sites, not an obligation of the body
	Defining bool
}

type Contract struct {
	Kind          string // func, extern
	Name          string // canonical function name
	Params        []string
	Results       []string
	Requires      []Clause
	Ensures       []Clause
	Assigns       []*Expr
	AssignsAll    bool
	Stable        []Clause // closures: predicates over captured variables preserved by every call
	Signals       []Clause // goroutine bodies: WaitGroups on which the function calls Done() exactly once
	ZeroOffsets   bool     // every slice result starts at offset 0 of its backing array (proved at exit, structural at call sites)
	SelfCallback  bool     // closures: a callback of unknown identity passed on by this closure is the closure itself
	Callbacks     []string // externs: parameters that are callbacks invoked any number of times
	HasAssigns    bool
	Loops         map[int][]Clause
	Steps         map[int][]Clause // two-state facts about one iteration: old(e) is e at the loop head of that iteration
	Decreases     map[int][]Clause // loop variants: non-negative integer expressions that strictly decrease on every iteration
	PanicsWhen    []Clause
	Props         []string
	Inline        bool
	Pure          bool
	File          string
	Line          int
	Trusted       bool // extern: assumed, not verified
	NoSafety      bool
	Opaque        bool // call sites always use the contract
	Calls         []CallClause
	FrameProps    []string
	PureCallbacks bool
}

type CallClause struct {
	Callee string
	C      Clause
}

type SpecFun struct {
	Name   string
	Params []string
	Body   *Expr
	Inline bool // "macro": always expanded in place, never turned into a named function
}

type UFun struct {
	Name string
	Args []string
	Res  string
}

type SpecDB struct {
	Contracts    map[string]*Contract
	Externs      map[string]*Contract
	Funs         map[string]*SpecFun
	UFuns        map[string]*UFun
	Consts       map[string]string
	Axioms       []Clause
	Methods      map[string]bool // pure interface methods
	Globals      map[string]string
	FuncTypes    map[string]bool
	MethodDefs   map[string]*SpecFun
	FuncTypeLaws map[string]*Expr
	MethodLaws   map[string]*Expr
	Files        []string
	Markers      []string            // trusted/assume markers found
	Monitors     map[string]*Monitor // "StructType.mutexField"
	Relies       map[string][]string // property -> properties that rely on its mechanisms ("relies C02: C01" stores Relies["C01"] = [C02])
}

// Monitor: a mutex field of a struct protects other fields of the same struct. Lock() havocs the
// protected fields (other goroutines may have changed them) and assumes the invariants; Unlock()
// must re-establish the invariants; every access to a protected field requires the lock.
type Monitor struct {
	Struct   string
	Mutex    string
	Protects []string
	Invs     []Clause
}

func NewSpecDB() *SpecDB {
	return &SpecDB{Contracts: map[string]*Contract{}, Externs: map[string]*Contract{}, Funs: map[string]*SpecFun{}, UFuns: map[string]*UFun{}, Consts: map[string]string{}, Methods: map[string]bool{}, Globals: map[string]string{}, FuncTypes: map[string]bool{}, MethodDefs: map[string]*SpecFun{}, FuncTypeLaws: map[string]*Expr{}, MethodLaws: map[string]*Expr{}, Monitors: map[string]*Monitor{}, Relies: map[string][]string{}}
}

type specLine struct {
	indent int
	text   string
	file   string
	line   int
}

// LoadSpecFile reads either a .gvc file or a Go contract file (//@ lines).
func (db *SpecDB) LoadSpecFile(path string) error {
	data, err := os.ReadFile(path)
	if err != nil {
		return err
	}
	db.Files = append(db.Files, path)
	isGo := strings.HasSuffix(path, ".go")
	var lines []specLine
	for i, raw := range strings.Split(string(data), "\n") {
		txt := raw
		if isGo {
			t := strings.TrimLeft(raw, " \t")
			if !strings.HasPrefix(t, "//@") {
				continue
			}
			txt = t[3:]
		}
		if idx := strings.Index(txt, " -- "); idx >= 0 {
			txt = txt[:idx]
		}
		if strings.HasPrefix(strings.TrimSpace(txt), "--") {
			continue
		}
		if strings.TrimSpace(txt) == "" {
			continue
		}
		ind := 0
		for _, r := range txt {
			if r == ' ' {
				ind++
			} else if r == '\t' {
				ind += 4
			} else {
				break
			}
		}
		lines = append(lines, specLine{ind, strings.TrimSpace(txt), path, i + 1})
	}
	// join continuation lines: a line is a continuation if it does not start with a keyword
	var joined []specLine
	for _, l := range lines {
		if len(joined) > 0 && !startsWithKeyword(l.text) {
			joined[len(joined)-1].text += " " + l.text
			continue
		}
		joined = append(joined, l)
	}
	var cur *Contract
	var curMon *Monitor
	for _, l := range joined {
		kw, rest := splitKeyword(l.text)
		fail := func(err error) error { return fmt.Errorf("%s:%d: %v (in %q)", l.file, l.line, err, l.text) }
		switch kw {
		case "func":
			cur = &Contract{Kind: "func", Name: canonFuncName(rest), Loops: map[int][]Clause{}, File: l.file, Line: l.line}
			if _, dup := db.Contracts[cur.Name]; dup {
				return fail(fmt.Errorf("duplicate contract for %s", cur.Name))
			}
			db.Contracts[cur.Name] = cur
		case "extern":
			name, params, results, err := parseSig(rest)
			if err != nil {
				return fail(err)
			}
			cur = &Contract{Kind: "extern", Name: name, Params: params, Results: results, Loops: map[int][]Clause{}, File: l.file, Line: l.line, Trusted: true}
			db.Externs[name] = cur
			db.Markers = append(db.Markers, "extern "+name)
		case "functype":
			// functype <pkg.Type> pure : calls through values of this named func type are pure, deterministic
			f := strings.Fields(rest)
			if len(f) >= 1 {
				db.FuncTypes[f[0]] = true
				db.Markers = append(db.Markers, "pure-functype "+f[0])
				// optional law:  functype T pure law <expr over result>
				if i := strings.Index(rest, " law "); i >= 0 {
					e, err := ParseExpr(rest[i+5:])
					if err != nil {
						return fail(err)
					}
					db.FuncTypeLaws[f[0]] = e
				}
			}
			cur = nil
		case "method":
			// method Iface.M pure            | method Iface.M(p1, p2) = <expr over recv and params>
			if eq := strings.Index(rest, "="); eq >= 0 && strings.Contains(rest[:eq], "(") {
				name, params, _, err := parseSig(strings.TrimSpace(rest[:eq]))
				if err != nil {
					return fail(err)
				}
				body, err := ParseExpr(rest[eq+1:])
				if err != nil {
					return fail(err)
				}
				db.Methods[name] = true
				db.MethodDefs[name] = &SpecFun{Name: name, Params: params, Body: body}
				db.Markers = append(db.Markers, "defined-method "+name)
				cur = nil
				break
			}
			f := strings.Fields(rest)
			if len(f) >= 1 {
				db.Methods[f[0]] = true
				db.Markers = append(db.Markers, "pure-method "+f[0])
				// optional law:  method I.M pure law <expr over recv, result, arg0...>
				if i := strings.Index(rest, " law "); i >= 0 {
					e, err := ParseExpr(rest[i+5:])
					if err != nil {
						return fail(err)
					}
					db.MethodLaws[f[0]] = e
					db.Markers = append(db.Markers, "method-law "+f[0])
				}
			}
			cur = nil
		case "ufun":
			name, params, results, err := parseSig(rest)
			if err != nil || len(results) != 1 {
				return fail(fmt.Errorf("bad ufun: %v", err))
			}
			db.UFuns[name] = &UFun{Name: name, Args: params, Res: results[0]}
			cur = nil
		case "global":
			// global <pkg.Var> = <integer | "string">   (initial value of a package variable that is never reassigned)
			f := strings.SplitN(rest, "=", 2)
			if len(f) != 2 {
				return fail(fmt.Errorf("bad global"))
			}
			db.Globals[strings.TrimSpace(f[0])] = strings.TrimSpace(f[1])
			db.Markers = append(db.Markers, "global "+strings.TrimSpace(f[0]))
			cur = nil
		case "relies":
			// relies <Cxx>: <Cyy>, <Czz>   property Cxx rests on the mechanisms Cyy / Czz own: every obligation that
			// counts towards Cyy also counts towards Cxx (the check of Cxx verifies those functions too)
			f := strings.SplitN(rest, ":", 2)
			if len(f) != 2 {
				return fail(fmt.Errorf("relies <Cxx>: <Cyy>, ..."))
			}
			for _, q := range strings.Split(f[1], ",") {
				q = strings.TrimSpace(q)
				db.Relies[q] = append(db.Relies[q], strings.TrimSpace(f[0]))
			}
			cur = nil
		case "const":
			f := strings.Fields(rest)
			if len(f) != 2 {
				return fail(fmt.Errorf("bad const"))
			}
			db.Consts[f[0]] = f[1]
			cur = nil
		case "macro", "fun":
			eq := strings.Index(rest, "=")
			// find the '=' that follows the closing paren of the parameter list
			cp := strings.Index(rest, ")")
			if cp < 0 {
				return fail(fmt.Errorf("bad fun"))
			}
			eq = cp + strings.Index(rest[cp:], "=")
			name, params, _, err := parseSig(strings.TrimSpace(rest[:eq]))
			if err != nil {
				return fail(err)
			}
			body, err := ParseExpr(rest[eq+1:])
			if err != nil {
				return fail(err)
			}
			db.Funs[name] = &SpecFun{Name: name, Params: params, Body: body, Inline: kw == "macro"}
			cur = nil
		case "monitor":
			f := strings.Split(strings.TrimSpace(rest), ".")
			if len(f) != 2 {
				return fail(fmt.Errorf("monitor <Struct>.<mutexField>"))
			}
			curMon = &Monitor{Struct: f[0], Mutex: f[1]}
			db.Monitors[f[0]+"."+f[1]] = curMon
			db.Markers = append(db.Markers, "monitor "+rest)
			cur = nil
		case "protects":
			if curMon == nil {
				return fail(fmt.Errorf("protects outside a monitor"))
			}
			for _, p := range strings.Split(rest, ",") {
				curMon.Protects = append(curMon.Protects, strings.TrimSpace(p))
			}
		case "invariant":
			if curMon == nil {
				return fail(fmt.Errorf("invariant outside a monitor"))
			}
			c, err := parseClause(rest)
			if err != nil {
				return fail(err)
			}
			curMon.Invs = append(curMon.Invs, c)
		case "axiom":
			c, err := parseClause(rest)
			if err != nil {
				return fail(err)
			}
			db.Axioms = append(db.Axioms, c)
			db.Markers = append(db.Markers, "axiom "+c.Label)
			cur = nil
		case "requires", "ensures", "defines", "stable", "callback", "selfcallback", "signals", "zerooffsets", "panics", "assigns", "loop", "property", "inline", "pure", "nosafety", "opaque", "params", "results", "calls", "frameprop", "trusted", "purecallbacks":
			if cur == nil {
				return fail(fmt.Errorf("clause outside a contract"))
			}
			switch kw {
			case "requires":
				c, err := parseClause(rest)
				if err != nil {
					return fail(err)
				}
				cur.Requires = append(cur.Requires, c)
			case "ensures":
				c, err := parseClause(rest)
				if err != nil {
					return fail(err)
				}
				cur.Ensures = append(cur.Ensures, c)
			case "defines":
				c, err := parseClause(rest)
				if err != nil {
					return fail(err)
				}
				c.Defining = true
				cur.Ensures = append(cur.Ensures, c)
				db.Markers = append(db.Markers, "defines "+cur.Name+": "+c.Src)
			case "stable":
				c, err := parseClause(rest)
				if err != nil {
					return fail(err)
				}
				cur.Stable = append(cur.Stable, c)
			case "signals":
				c, err := parseClause(rest)
				if err != nil {
					return fail(err)
				}
				cur.Signals = append(cur.Signals, c)
			case "zerooffsets":
				cur.ZeroOffsets = true
			case "selfcallback":
				cur.SelfCallback = true
				db.Markers = append(db.Markers, "selfcallback "+cur.Name)
			case "callback":
				for _, p := range strings.Split(rest, ",") {
					cur.Callbacks = append(cur.Callbacks, strings.TrimSpace(p))
				}
			case "panics":
				rest = strings.TrimSpace(strings.TrimPrefix(rest, "when"))
				c, err := parseClause(rest)
				if err != nil {
					return fail(err)
				}
				cur.PanicsWhen = append(cur.PanicsWhen, c)
			case "assigns":
				cur.HasAssigns = true
				r := strings.TrimSpace(rest)
				if r == "nothing" {
					break
				}
				if r == "*" {
					cur.AssignsAll = true
					break
				}
				for _, part := range splitTop(r, ',') {
					e, err := ParseExpr(part)
					if err != nil {
						return fail(err)
					}
					cur.Assigns = append(cur.Assigns, e)
				}
			case "loop":
				colon := strings.Index(rest, ":")
				if colon < 0 {
					return fail(fmt.Errorf("loop clause needs ':'"))
				}
				n, err := strconv.Atoi(strings.TrimSpace(rest[:colon]))
				if err != nil {
					return fail(err)
				}
				body := strings.TrimSpace(rest[colon+1:])
				if strings.HasPrefix(body, "step") {
					c, err := parseClause(strings.TrimSpace(strings.TrimPrefix(body, "step")))
					if err != nil {
						return fail(err)
					}
					if cur.Steps == nil {
						cur.Steps = map[int][]Clause{}
					}
					cur.Steps[n] = append(cur.Steps[n], c)
					break
				}
				if strings.HasPrefix(body, "decreases") {
					c, err := parseClause(strings.TrimSpace(strings.TrimPrefix(body, "decreases")))
					if err != nil {
						return fail(err)
					}
					if cur.Decreases == nil {
						cur.Decreases = map[int][]Clause{}
					}
					cur.Decreases[n] = append(cur.Decreases[n], c)
					break
				}
				if !strings.HasPrefix(body, "invariant") {
					return fail(fmt.Errorf("expected 'invariant', 'step' or 'decreases'"))
				}
				c, err := parseClause(strings.TrimSpace(strings.TrimPrefix(body, "invariant")))
				if err != nil {
					return fail(err)
				}
				cur.Loops[n] = append(cur.Loops[n], c)
			case "property":
				for _, p := range strings.Split(rest, ",") {
					cur.Props = append(cur.Props, strings.TrimSpace(p))
				}
			case "calls":
				// calls <callee> [label:] <expr>  — must hold at every call of <callee> made (directly or through inlined code)
				f := strings.SplitN(rest, " ", 2)
				if len(f) != 2 {
					return fail(fmt.Errorf("calls clause needs a callee and an expression"))
				}
				c, err := parseClause(f[1])
				if err != nil {
					return fail(err)
				}
				cur.Calls = append(cur.Calls, CallClause{Callee: strings.TrimSpace(f[0]), C: c})
			case "purecallbacks":
				// calls through function values whose identity is unknown (callbacks handed in by the caller)
				// are pure, deterministic functions of their arguments
				cur.PureCallbacks = true
			case "trusted":
				// the contract is assumed at call sites and the body is not verified against it
				cur.Trusted = true
				cur.Opaque = true
				db.Markers = append(db.Markers, "trusted "+cur.Name)
			case "frameprop":
				for _, p := range strings.Split(rest, ",") {
					cur.FrameProps = append(cur.FrameProps, strings.TrimSpace(p))
				}
			case "inline":
				cur.Inline = true
			case "pure":
				cur.Pure = true
				cur.HasAssigns = true
			case "nosafety":
				cur.NoSafety = true
			case "opaque":
				cur.Opaque = true
			case "params":
				cur.Params = strings.Fields(strings.ReplaceAll(rest, ",", " "))
			case "results":
				cur.Results = strings.Fields(strings.ReplaceAll(rest, ",", " "))
			}
		default:
			return fail(fmt.Errorf("unknown keyword %q", kw))
		}
	}
	return nil
}

var keywords = map[string]bool{"relies": true, "macro": true, "functype": true, "global": true, "func": true, "extern": true, "method": true, "ufun": true, "fun": true, "axiom": true, "const": true, "defines": true, "monitor": true, "protects": true, "invariant": true, "stable": true, "callback": true, "selfcallback": true, "signals": true, "zerooffsets": true,
	"requires": true, "ensures": true, "panics": true, "assigns": true, "loop": true, "property": true, "inline": true, "pure": true,
	"nosafety": true, "opaque": true, "params": true, "results": true, "calls": true, "frameprop": true, "trusted": true, "purecallbacks": true}

func startsWithKeyword(s string) bool {
	kw, _ := splitKeyword(s)
	return keywords[kw]
}

func splitKeyword(s string) (string, string) {
	i := strings.IndexFunc(s, func(r rune) bool { return !unicode.IsLetter(r) })
	if i < 0 {
		return s, ""
	}
	return s[:i], strings.TrimSpace(s[i:])
}

// canonFuncName turns "(a *allowerContext) update", "(*allowerContext).update", "pkg.Func" into the
// canonical short form used as key: "Func", "(*T).method", "(T).method", optionally "pkg.".
func canonFuncName(s string) string {
	s = strings.TrimSpace(s)
	if strings.HasPrefix(s, "(") {
		end := strings.Index(s, ")")
		recv := strings.TrimSpace(s[1:end])
		rest := strings.TrimSpace(s[end+1:])
		rest = strings.TrimPrefix(rest, ".")
		f := strings.Fields(recv)
		typ := f[len(f)-1]
		return "(" + typ + ")." + rest
	}
	return s
}

func parseSig(s string) (name string, params, results []string, err error) {
	s = strings.TrimSpace(s)
	// name may itself start with "(" for methods: (*net.IPNet).Contains(n, ip) (r)
	depth := 0
	nameEnd := -1
	for i, r := range s {
		if r == '(' {
			if depth == 0 && i > 0 && s[i-1] != ' ' && !(i == 0) && !strings.HasSuffix(strings.TrimSpace(s[:i]), ")") {
				nameEnd = i
				break
			}
			if depth == 0 && i > 0 && strings.HasSuffix(s[:i], ")") {
				// "(*T).m" cannot end with ')' right before '(' ; treat as params start
				nameEnd = i
				break
			}
			depth++
		} else if r == ')' {
			depth--
		}
	}
	if nameEnd < 0 {
		return strings.TrimSpace(s), nil, nil, nil
	}
	name = strings.TrimSpace(s[:nameEnd])
	rest := s[nameEnd:]
	end := matchParen(rest, 0)
	if end < 0 {
		return "", nil, nil, fmt.Errorf("unbalanced parens in signature")
	}
	params = fieldsComma(rest[1:end])
	rest = strings.TrimSpace(rest[end+1:])
	if rest != "" {
		if strings.HasPrefix(rest, "(") {
			e2 := matchParen(rest, 0)
			results = fieldsComma(rest[1:e2])
		} else {
			results = []string{rest}
		}
	}
	return
}

func matchParen(s string, start int) int {
	depth := 0
	for i := start; i < len(s); i++ {
		switch s[i] {
		case '(':
			depth++
		case ')':
			depth--
			if depth == 0 {
				return i
			}
		}
	}
	return -1
}

func fieldsComma(s string) []string {
	var out []string
	for _, p := range strings.Split(s, ",") {
		p = strings.TrimSpace(p)
		if p != "" {
			// "name Type" -> name only (first field)
			out = append(out, strings.Fields(p)[0])
		}
	}
	return out
}

func splitTop(s string, sep byte) []string {
	var out []string
	depth := 0
	last := 0
	for i := 0; i < len(s); i++ {
		switch s[i] {
		case '(', '[':
			depth++
		case ')', ']':
			depth--
		default:
			if s[i] == sep && depth == 0 {
				out = append(out, s[last:i])
				last = i + 1
			}
		}
	}
	out = append(out, s[last:])
	return out
}

func parseClause(s string) (Clause, error) {
	s = strings.TrimSpace(s)
	label := ""
	// optional "label:" prefix — an identifier (with dashes/dots) followed by ':' (not '::')
	for i := 0; i < len(s); i++ {
		c := s[i]
		if c == ':' {
			if i+1 < len(s) && s[i+1] == ':' {
				break
			}
			if i > 0 {
				label = s[:i]
				s = strings.TrimSpace(s[i+1:])
			}
			break
		}
		if !(c == '-' || c == '_' || c == '.' || c == '<' && false || unicode.IsLetter(rune(c)) || unicode.IsDigit(rune(c))) {
			break
		}
	}
	e, err := ParseExpr(s)
	if err != nil {
		return Clause{}, err
	}
	return Clause{Label: label, E: e, Src: s}, nil
}

// ---------- expression parser (Pratt) ----------

type tok struct {
	kind string // ident, int, str, op, eof
	text string
}

func lex(s string) ([]tok, error) {
	var toks []tok
	i := 0
	for i < len(s) {
		c := s[i]
		switch {
		case c == ' ' || c == '\t' || c == '\n':
			i++
		case unicode.IsLetter(rune(c)) || c == '_':
			j := i
			for j < len(s) && (unicode.IsLetter(rune(s[j])) || unicode.IsDigit(rune(s[j])) || s[j] == '_') {
				j++
			}
			toks = append(toks, tok{"ident", s[i:j]})
			i = j
		case unicode.IsDigit(rune(c)):
			j := i
			for j < len(s) && (unicode.IsDigit(rune(s[j])) || s[j] == 'x' || (s[j] >= 'a' && s[j] <= 'f') || (s[j] >= 'A' && s[j] <= 'F') || s[j] == '_') {
				j++
			}
			toks = append(toks, tok{"int", s[i:j]})
			i = j
		case c == '"':
			j := i + 1
			for j < len(s) && s[j] != '"' {
				if s[j] == '\\' {
					j++
				}
				j++
			}
			if j >= len(s) {
				return nil, fmt.Errorf("unterminated string")
			}
			u, err := strconv.Unquote(s[i : j+1])
			if err != nil {
				return nil, err
			}
			toks = append(toks, tok{"str", u})
			i = j + 1
		case c == '\'':
			j := i + 1
			for j < len(s) && s[j] != '\'' {
				if s[j] == '\\' {
					j++
				}
				j++
			}
			u, _, _, err := strconv.UnquoteChar(s[i+1:j], '\'')
			if err != nil {
				return nil, err
			}
			toks = append(toks, tok{"int", strconv.Itoa(int(u))})
			i = j + 1
		default:
			ops := []string{"<==>", "==>", "::", "==", "!=", "<=", ">=", "&&", "||", "<<", ">>", "+", "-", "*", "/", "%", "<", ">", "!", "(", ")", "[", "]", ",", ".", "?", ":", "&", "|", "{", "}"}
			matched := false
			for _, op := range ops {
				if strings.HasPrefix(s[i:], op) {
					toks = append(toks, tok{"op", op})
					i += len(op)
					matched = true
					break
				}
			}
			if !matched {
				return nil, fmt.Errorf("unexpected character %q", c)
			}
		}
	}
	toks = append(toks, tok{"eof", ""})
	return toks, nil
}

type parser struct {
	toks []tok
	pos  int
	src  string
}

func ParseExpr(s string) (*Expr, error) {
	toks, err := lex(s)
	if err != nil {
		return nil, fmt.Errorf("%v in %q", err, s)
	}
	p := &parser{toks: toks, src: s}
	var e *Expr
	func() {
		defer func() {
			if r := recover(); r != nil {
				if pe, ok := r.(parseErr); ok {
					err = fmt.Errorf("%s in %q", string(pe), s)
					return
				}
				panic(r)
			}
		}()
		e = p.expr(0)
		if p.peek().kind != "eof" {
			panic(parseErr("trailing input at " + p.peek().text))
		}
	}()
	return e, err
}

type parseErr string

func (p *parser) peek() tok { return p.toks[p.pos] }
func (p *parser) next() tok { t := p.toks[p.pos]; p.pos++; return t }
func (p *parser) isOp(s string) bool {
	t := p.peek()
	return t.kind == "op" && t.text == s
}
func (p *parser) expect(s string) {
	if !p.isOp(s) {
		panic(parseErr("expected " + s + " got " + p.peek().text))
	}
	p.pos++
}

var binPrec = map[string]int{
	"<==>": 1, "==>": 2, "||": 4, "&&": 5,
	"==": 6, "!=": 6, "<": 6, "<=": 6, ">": 6, ">=": 6, "in": 6,
	"+": 7, "-": 7, "|": 7, "*": 8, "/": 8, "%": 8, "&": 8, "<<": 8, ">>": 8,
}

func (p *parser) expr(minPrec int) *Expr {
	lhs := p.unary()
	for {
		t := p.peek()
		op := ""
		if t.kind == "op" {
			op = t.text
		} else if t.kind == "ident" && t.text == "in" {
			op = "in"
		}
		if op == "?" && minPrec <= 3 {
			p.next()
			a := p.expr(0)
			p.expect(":")
			b := p.expr(3)
			lhs = &Expr{Op: "cond", Args: []*Expr{lhs, a, b}}
			continue
		}
		prec, ok := binPrec[op]
		if !ok || prec < minPrec {
			return lhs
		}
		p.next()
		var rhs *Expr
		if op == "==>" {
			rhs = p.expr(prec) // right associative
		} else {
			rhs = p.expr(prec + 1)
		}
		lhs = &Expr{Op: "binary", Name: op, Args: []*Expr{lhs, rhs}}
	}
}

func (p *parser) unary() *Expr {
	t := p.peek()
	if t.kind == "op" && (t.text == "!" || t.text == "-") {
		p.next()
		return &Expr{Op: "unary", Name: t.text, Args: []*Expr{p.unary()}}
	}
	if t.kind == "ident" && (t.text == "forall" || t.text == "exists") {
		p.next()
		q := &Expr{Op: t.text}
		for {
			name := p.next()
			typ := p.next()
			if name.kind != "ident" || typ.kind != "ident" {
				panic(parseErr("bad quantifier binding"))
			}
			q.Bound = append(q.Bound, QVar{name.text, typ.text})
			if p.isOp(",") {
				p.next()
				continue
			}
			break
		}
		p.expect("::")
		// optional patterns: { e, e } { e }
		for p.isOp("{") {
			p.next()
			var pat []*Expr
			for {
				pat = append(pat, p.expr(0))
				if p.isOp(",") {
					p.next()
					continue
				}
				break
			}
			p.expect("}")
			q.Pats = append(q.Pats, pat)
		}
		q.Args = []*Expr{p.expr(0)}
		return q
	}
	return p.postfix(p.primary())
}

func (p *parser) primary() *Expr {
	t := p.next()
	switch t.kind {
	case "int":
		return &Expr{Op: "int", Int: strings.ReplaceAll(t.text, "_", "")}
	case "str":
		return &Expr{Op: "str", Name: t.text}
	case "ident":
		switch t.text {
		case "true", "false":
			return &Expr{Op: "bool", Name: t.text}
		case "nil":
			return &Expr{Op: "nil"}
		case "old":
			p.expect("(")
			e := p.expr(0)
			p.expect(")")
			return &Expr{Op: "old", Args: []*Expr{e}}
		}
		return &Expr{Op: "ident", Name: t.text}
	case "op":
		if t.text == "(" {
			e := p.expr(0)
			p.expect(")")
			return &Expr{Op: "paren", Args: []*Expr{e}}
		}
		if t.text == "*" {
			return &Expr{Op: "unary", Name: "*", Args: []*Expr{p.unary()}}
		}
	}
	panic(parseErr("unexpected token " + t.text))
}

func (p *parser) postfix(e *Expr) *Expr {
	for {
		switch {
		case p.isOp("."):
			p.next()
			name := p.next()
			if name.kind == "op" && name.text == "(" {
				// type assertion e.(T)
				ty := p.next()
				tn := ty.text
				if ty.kind == "op" && ty.text == "*" {
					tn = "*" + p.next().text
				}
				if ty.kind == "str" {
					tn = ty.text // a Go type expression written as a string literal
				}
				for p.isOp(".") {
					p.next()
					tn += "." + p.next().text
				}
				p.expect(")")
				e = &Expr{Op: "assert", Name: tn, Args: []*Expr{e}}
				continue
			}
			if name.kind != "ident" {
				panic(parseErr("expected field name"))
			}
			e = &Expr{Op: "field", Name: name.text, Args: []*Expr{e}}
		case p.isOp("("):
			p.next()
			var args []*Expr
			if !p.isOp(")") {
				for {
					args = append(args, p.expr(0))
					if p.isOp(",") {
						p.next()
						continue
					}
					break
				}
			}
			p.expect(")")
			e = &Expr{Op: "call", Args: append([]*Expr{e}, args...)}
		case p.isOp("["):
			p.next()
			if p.isOp("*") {
				p.next()
				p.expect("]")
				e = &Expr{Op: "allelems", Args: []*Expr{e}}
				continue
			}
			var lo, hi *Expr
			if !p.isOp(":") {
				lo = p.expr(0)
			}
			if p.isOp(":") {
				p.next()
				if !p.isOp("]") {
					hi = p.expr(0)
				}
				p.expect("]")
				e = &Expr{Op: "slice", Args: []*Expr{e, lo, hi}}
				continue
			}
			p.expect("]")
			e = &Expr{Op: "index", Args: []*Expr{e, lo}}
		default:
			return e
		}
	}
}

func (e *Expr) String() string {
	if e == nil {
		return ""
	}
	switch e.Op {
	case "ident":
		return e.Name
	case "int":
		return e.Int
	case "str":
		return strconv.Quote(e.Name)
	case "bool":
		return e.Name
	case "nil":
		return "nil"
	case "field":
		return e.Args[0].String() + "." + e.Name
	case "binary":
		return "(" + e.Args[0].String() + " " + e.Name + " " + e.Args[1].String() + ")"
	case "unary":
		return e.Name + e.Args[0].String()
	case "call":
		var as []string
		for _, a := range e.Args[1:] {
			as = append(as, a.String())
		}
		return e.Args[0].String() + "(" + strings.Join(as, ", ") + ")"
	case "index":
		return e.Args[0].String() + "[" + e.Args[1].String() + "]"
	case "old":
		return "old(" + e.Args[0].String() + ")"
	case "paren":
		return "(" + e.Args[0].String() + ")"
	case "cond":
		return "(" + e.Args[0].String() + " ? " + e.Args[1].String() + " : " + e.Args[2].String() + ")"
	}
	return e.Op + "(...)"
}

// LoadAllSpecs loads /verif/spec/*.gvc and the contract files of the repository.
func LoadAllSpecs(specDir, repo string) (*SpecDB, error) {
	db := NewSpecDB()
	gvcs, _ := filepath.Glob(filepath.Join(specDir, "*.gvc"))
	for _, f := range gvcs {
		if err := db.LoadSpecFile(f); err != nil {
			return nil, err
		}
	}
	for _, pat := range []string{"zz_verif_*.go", "*/zz_verif_*.go"} {
		fs, _ := filepath.Glob(filepath.Join(repo, pat))
		for _, f := range fs {
			if err := db.LoadSpecFile(f); err != nil {
				return nil, err
			}
		}
	}
	db.applyRelies()
	return db, nil
}

// applyRelies widens every contract's property lists by the "relies" directives.
func (db *SpecDB) applyRelies() {
	if len(db.Relies) == 0 {
		return
	}
	widen := func(ps []string) []string {
		out := append([]string{}, ps...)
		for _, p := range ps {
			base, suffix := p, ""
			if i := strings.Index(p, ":"); i >= 0 {
				base, suffix = p[:i], p[i:]
			}
			for _, q := range db.Relies[base] {
				if !contains(out, q+suffix) && !contains(out, q) {
					out = append(out, q+suffix)
				}
			}
		}
		return out
	}
	for _, c := range db.Contracts {
		c.Props = widen(c.Props)
		c.FrameProps = widen(c.FrameProps)
	}
}
