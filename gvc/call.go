package main

import (
	"os"
	"fmt"
	"go/token"
	"go/types"
	"sort"
	"strings"

	"golang.org/x/tools/go/ssa"
)

func (x *Exec) pkgOfFn(fn *ssa.Function) *types.Package {
	for f := fn; f != nil; f = f.Parent() {
		if f.Pkg != nil {
			return f.Pkg.Pkg
		}
		if f.Origin() != nil && f.Origin().Pkg != nil {
			return f.Origin().Pkg.Pkg
		}
	}
	return nil
}

func (x *Exec) inRepo(fn *ssa.Function) bool {
	p := x.pkgOfFn(fn)
	return p != nil && x.repoPkgs[p.Path()]
}

// call executes a call instruction and returns its result value (nil for no result).
func (x *Exec) call(fr *Frame, st *State, in ssa.CallInstruction, pos token.Pos) *Value {
	c := in.Common()
	var resT types.Type
	if v := in.Value(); v != nil {
		resT = v.Type()
	} else {
		resT = c.Signature().Results()
	}
	var args []*Value
	for _, a := range c.Args {
		args = append(args, x.val(fr, a))
	}
	if c.IsInvoke() {
		recv := x.val(fr, c.Value)
		return x.invoke(fr, st, recv, c.Method, args, resT, pos)
	}
	switch callee := c.Value.(type) {
	case *ssa.Builtin:
		return x.builtin(fr, st, callee, c.Args, args, resT, pos)
	case *ssa.Function:
		return x.callStatic(fr, st, callee, args, nil, resT, pos)
	case *ssa.MakeClosure:
		fv := x.val(fr, callee)
		return x.callStatic(fr, st, fv.Fn, args, fv.Bind, resT, pos)
	}
	fv := x.val(fr, c.Value)
	if fv.K == KFunc && fv.Fn == nil && fv.Term != nil && x.pureFuncType(c.Value.Type()) {
		x.safetyOblige(fr, st, "nilfunc", "call of nil func "+exprText(c.Value), Neq(fv.Term, x.null()), pos)
		x.lawState = st
		return x.pureFuncCall(fv, c.Value.Type(), args, resT)
	}
	if fv.K == KFunc && fv.Fn != nil {
		x.safetyOblige(fr, st, "nilfunc", "call of nil func "+exprText(c.Value), Neq(fv.Term, x.null()), pos)
		return x.callStatic(fr, st, fv.Fn, args, fv.Bind, resT, pos)
	}
	if fv.K == KFunc && fv.Term != nil {
		x.safetyOblige(fr, st, "nilfunc", "call of nil func "+exprText(c.Value), Neq(fv.Term, x.null()), pos)
		// dispatch over statically known function identities
		if cands := x.funcCandidates(c.Signature()); len(cands) > 0 && len(cands) <= 6 {
			return x.dispatch(fr, st, fv.Term, cands, args, resT, pos)
		}
	}
	if fv.K == KFunc && fv.Term != nil && x.rootFrame != nil && x.rootFrame.contract != nil && x.rootFrame.contract.PureCallbacks {
		return x.callbackCall(fv, c.Value.Type(), args, resT)
	}
	// the enclosing function itself calling a closure through a local variable that closures capture (var iter func(..);
	// iter = func(..){ .. iter(x) .. }; iter(e)): the variable is a cell; when the only store to it anywhere (this
	// function and every function literal nested in it) is one closure literal, stored where it dominates the call, the
	// callee's identity is known
	if u, ok := c.Value.(*ssa.UnOp); ok && u.Op == token.MUL {
		if cell, isAlloc := u.X.(*ssa.Alloc); isAlloc && cell.Parent() == fr.fn {
			if mk := singleClosureStore(fr.fn, cell, in); mk != nil {
				cv := x.val(fr, mk)
				if cv != nil && cv.K == KFunc && cv.Fn != nil {
					x.trusted["the function variable "+exprText(c.Value)+" called by "+funcDisplayName(fr.fn)+" holds the closure literal it is assigned (assigned exactly once, before the call; no function literal assigns a captured function variable)"] = true
					return x.callStatic(fr, st, cv.Fn, args, cv.Bind, resT, pos)
				}
			}
		}
	}
	// a closure calling a sibling closure through a variable of the enclosing function that is assigned exactly once,
	// to a closure literal (isIn := func..; iter = func(){ .. isIn(x) .. }): the callee's identity is known
	if fr == x.rootFrame && x.rootFrame != nil && x.rootFrame.fn.Parent() != nil {
		if u, ok := c.Value.(*ssa.UnOp); ok && u.Op == token.MUL {
			if fvv, isFV := u.X.(*ssa.FreeVar); isFV {
				if sfn, sbind := x.siblingThroughCell(x.rootFrame.fn, fvv, x.rootFrame.bind); sfn != nil && sfn != x.rootFrame.fn {
					x.trusted["the function variable "+exprText(c.Value)+" called by "+funcDisplayName(x.rootFrame.fn)+" holds the closure literal it is assigned in the enclosing function (assigned exactly once there)"] = true
					return x.callStatic(fr, st, sfn, args, sbind, resT, pos)
				}
			}
		}
	}
	// `selfcallback`: a recursive closure calling itself through the variable it is assigned to (var iter func(..);
	// iter = func(..) { .. iter(x) .. }): the call is a call of the closure under verification, with the same captures
	if fr == x.rootFrame && x.rootFrame != nil && x.rootFrame.contract != nil && x.rootFrame.contract.SelfCallback && x.rootFrame.fn.Parent() != nil {
		if u, ok := c.Value.(*ssa.UnOp); ok && u.Op == token.MUL {
			if _, isFV := u.X.(*ssa.FreeVar); isFV && types.Identical(c.Signature(), x.rootFrame.fn.Signature) {
				x.trusted["selfcallback: the function variable "+exprText(c.Value)+" that "+funcDisplayName(x.rootFrame.fn)+" calls is the closure itself (the variable it captures is assigned exactly once, to this closure)"] = true
				return x.callStatic(fr, st, x.rootFrame.fn, args, x.rootFrame.bind, resT, pos)
			}
		}
	}
	x.unmod["call through function value "+exprText(c.Value)] = true
	x.havocAll(st)
	return x.freshResult(st, resT, "dyncall")
}

// funcCandidates: functions whose address has been taken so far with the given signature.
func (x *Exec) funcCandidates(sig *types.Signature) []*ssa.Function {
	var out []*ssa.Function
	var names []string
	for n := range x.fnRefs {
		names = append(names, n)
	}
	sort.Strings(names)
	for _, n := range names {
		f := x.fnByRef[x.fnRefs[n].Name]
		if f != nil && types.Identical(f.Signature, sig) {
			out = append(out, f)
		}
	}
	return out
}

func (x *Exec) dispatch(fr *Frame, st *State, ref *Term, cands []*ssa.Function, args []*Value, resT types.Type, pos token.Pos) *Value {
	var sts []*State
	var vals []*Value
	known := False
	for _, f := range cands {
		cs := st.clone()
		is := Eq(ref, x.fnRef(f))
		known = Or(known, is)
		cs.guard = x.name("g", And(st.guard, is))
		r := x.callStatic(fr, cs, f, args, nil, resT, pos)
		sts = append(sts, cs)
		vals = append(vals, r)
	}
	// unknown identity
	us := st.clone()
	us.guard = x.name("g", And(st.guard, Not(known)))
	x.havocAll(us)
	ur := x.freshResult(us, resT, "dyncall")
	sts = append(sts, us)
	vals = append(vals, ur)
	m := x.mergeStates(sts)
	*st = *m
	var acc *Value
	for i := len(sts) - 1; i >= 0; i-- {
		if vals[i] == nil {
			continue
		}
		if acc == nil {
			acc = vals[i]
		} else {
			acc = iteValue(sts[i].guard, vals[i], acc)
		}
	}
	return acc
}

func (x *Exec) freshResult(st *State, t types.Type, prefix string) *Value {
	if t == nil {
		return nil
	}
	if tup, ok := t.(*types.Tuple); ok && tup.Len() == 0 {
		return nil
	}
	return x.freshValue(prefix, t, st.guard)
}

func (x *Exec) invoke(fr *Frame, st *State, recv *Value, m *types.Func, args []*Value, resT types.Type, pos token.Pos) *Value {
	if x.argNames != nil {
		for _, k := range []string{shortType(recv.T) + "." + m.Name(), m.Name()} {
			if x.argNames[k] {
				x.recordArgs(st, k, args)
			}
		}
	}
	r := x.invoke0(fr, st, recv, m, args, resT, pos)
	if x.afterNames != nil {
		for _, k := range []string{shortType(recv.T) + "." + m.Name(), m.Name()} {
			if x.afterNames[k] {
				snap := st.clone()
				snap.snaps = nil
				if st.snaps == nil {
					st.snaps = map[string]*State{}
				}
				st.snaps[k] = snap
			}
		}
	}
	if r != nil && x.retCells != nil {
		for _, k := range []string{shortType(recv.T) + "." + m.Name(), m.Name()} {
			if c, ok := x.retCells[k]; ok {
				c.T = r.T
				st.cells[c] = r
				x.cellsW[c] = true
			}
		}
	}
	return r
}

func (x *Exec) invoke0(fr *Frame, st *State, recv *Value, m *types.Func, args []*Value, resT types.Type, pos token.Pos) *Value {
	if recv.K != KIface {
		failf("invoke on non-interface")
	}
	x.safetyOblige(fr, st, "nil", "method call on nil interface ."+m.Name(), Neq(recv.Tag, IntLit(0)), pos)
	x.ifaceCallSiteObligations(fr, st, recv, m, args, pos)
	key := shortType(recv.T) + "." + m.Name()
	full := typeKey(recv.T) + "." + m.Name()
	if x.db.Methods[key] || x.db.Methods[full] {
		x.accessorState = st
		r := x.ifaceAccessor(recv, m, args)
		if r.K == KTuple && len(r.Fields) == 0 {
			return nil
		}
		return r
	}
	// error.Error() is pure
	if m.Name() == "Error" && m.Type().(*types.Signature).Params().Len() == 0 {
		return x.ifaceAccessor(recv, m, args)
	}
	// devirtualise when the dynamic type is statically known
	if recv.Tag.Op == "int" {
		if t, ok := x.tagTypes[int(recv.Tag.Int.Int64())]; ok {
			if sel := x.prog.MethodSets.MethodSet(t).Lookup(m.Pkg(), m.Name()); sel != nil {
				if fn := x.prog.MethodValue(sel); fn != nil {
					var rv *Value
					if recv.Boxed != nil {
						rv = recv.Boxed
					} else if _, isPtr := under(t).(*types.Pointer); isPtr {
						rv = &Value{K: KPtr, T: t, P: &Pointer{Base: recv.IRef, ObjT: under(t).(*types.Pointer).Elem()}}
					} else {
						rv = x.unbox(recv.IRef, t)
					}
					return x.callStatic(fr, st, fn, append([]*Value{rv}, args...), nil, resT, pos)
				}
			}
		}
	}
	if ec, ok := x.db.Externs[key]; ok {
		return x.applyContract(fr, st, ec, nil, append([]*Value{recv}, args...), resT, pos, key)
	}
	x.unmod["interface method "+key] = true
	x.havocAll(st)
	return x.freshResult(st, resT, "invoke_"+m.Name())
}

func (x *Exec) callStatic(fr *Frame, st *State, fn *ssa.Function, args, bind []*Value, resT types.Type, pos token.Pos) *Value {
	if x.argNames != nil {
		gb, gi := genericNames(fn)
		for _, k := range []string{fn.String(), funcDisplayName(fn), fn.Name(), gb, gi} {
			if k != "" && x.argNames[k] {
				x.recordArgs(st, k, args)
			}
		}
	}
	r := x.callStatic0(fr, st, fn, args, bind, resT, pos)
	if x.afterNames != nil {
		gb, gi := genericNames(fn)
		for _, k := range []string{fn.String(), funcDisplayName(fn), fn.Name(), gb, gi} {
			if k != "" && x.afterNames[k] {
				snap := st.clone()
				snap.snaps = nil
				if st.snaps == nil {
					st.snaps = map[string]*State{}
				}
				st.snaps[k] = snap
			}
		}
	}
	// ghost: remember the results of tracked callees (ret(F, k) in contracts)
	if r != nil && x.retCells != nil {
		name := fn.String()
		gb, gi := genericNames(fn)
		for _, k := range []string{name, funcDisplayName(fn), fn.Name(), gb, gi} {
			if c, ok := x.retCells[k]; ok && k != "" {
				c.T = r.T
				st.cells[c] = r
				x.cellsW[c] = true
			}
		}
	}
	return r
}

func (x *Exec) callStatic0(fr *Frame, st *State, fn *ssa.Function, args, bind []*Value, resT types.Type, pos token.Pos) *Value {
	name := fn.String()
	if fn.Origin() != nil {
		name = fn.Origin().String()
	}
	x.callSiteObligations(fr, st, fn, name, args, pos)
	if x.monitorCall(fr, st, fn, args, pos) {
		return nil
	}
	if x.waitGroupCall(fr, st, fn, args, pos) {
		return nil
	}
	if r, ok := x.modelCall(fr, st, fn, name, args, resT, pos); ok {
		return r
	}
	if ec, ok := x.db.Externs[name]; ok {
		return x.applyContract(fr, st, ec, fn, args, resT, pos, name)
	}
	if x.inRepo(fn) && fn.Blocks != nil {
		c := x.contractFor(fn)
		recursive := false
		for _, s := range x.stack {
			if s == fn {
				recursive = true
			}
		}
		useContract := c != nil && !c.Inline && (len(c.Ensures) > 0 || len(c.Requires) > 0 || c.HasAssigns || c.Trusted) && (c.Opaque || recursive || x.useContracts)
		if useContract {
			x.applyBind = bind // captured variables of a closure called through its contract
			r := x.applyContract(fr, st, c, fn, args, resT, pos, funcDisplayName(fn))
			x.applyBind = nil
			return r
		}
		if recursive {
			failf("recursive call of %s without contract", fn.Name())
		}
		if fr.depth+1 > x.maxDepth {
			failf("inlining depth exceeded at %s", fn.Name())
		}
		// a helper without contract entry that contains a loop is where precision can be lost (no invariants were
		// written for it): it changes the function's fit. A loop-free helper is inlined exactly, like the same
		// lines written in place, and does not.
		if c == nil && fn.Parent() == nil && hasBackEdge(fn) {
			if x.fitHelpers == nil {
				x.fitHelpers = map[string]bool{}
			}
			x.fitHelpers[funcDisplayName(fn)] = true
		}
		out, vals := x.execFunction(fn, st, args, bind, nil, false, fr.depth+1)
		g := st.guard
		*st = *out
		_ = g
		return tupleOf(vals, resT)
	}
	if fn.Blocks != nil && bind != nil {
		out, vals := x.execFunction(fn, st, args, bind, nil, false, fr.depth+1)
		*st = *out
		return tupleOf(vals, resT)
	}
	// extern without contract
	x.unmod[name] = true
	x.havocReachable(st, args)
	return x.freshResult(st, resT, "ext_"+fn.Name())
}

func tupleOf(vals []*Value, resT types.Type) *Value {
	switch len(vals) {
	case 0:
		return nil
	case 1:
		return vals[0]
	}
	return &Value{K: KTuple, T: resT, Fields: vals}
}

// havocReachable havocs the heap regions an unmodelled callee could write through its arguments:
// everything reachable by type from pointer / slice / map / interface / func arguments.
func (x *Exec) havocReachable(st *State, args []*Value) {
	need := false
	for _, a := range args {
		for _, l := range leavesOf(a.T) {
			if l.Sort.Kind == SRef {
				need = true
			}
		}
	}
	if need {
		x.havocAll(st)
	}
}

// ---- contracts at call sites ----

func (x *Exec) bindParams(c *Contract, fn *ssa.Function, args []*Value) map[string]*Value {
	vars := map[string]*Value{}
	if fn != nil && len(c.Params) == 0 {
		for i, p := range fn.Params {
			if i < len(args) {
				vars[p.Name()] = args[i]
			}
		}
	} else {
		for i, p := range c.Params {
			if i < len(args) {
				vars[p] = args[i]
			}
		}
	}
	return vars
}

func (x *Exec) bindResults(c *Contract, fn *ssa.Function, vars map[string]*Value, res *Value, sig *types.Signature) {
	if res == nil {
		return
	}
	var rs []*Value
	if res.K == KTuple {
		rs = res.Fields
	} else {
		rs = []*Value{res}
	}
	if _, taken := vars["result"]; !taken {
		vars["result"] = res
	}
	if len(c.Results) > 0 {
		for i, n := range c.Results {
			if i < len(rs) {
				vars[n] = rs[i]
			}
		}
		return
	}
	if sig != nil {
		for i := 0; i < sig.Results().Len() && i < len(rs); i++ {
			if n := sig.Results().At(i).Name(); n != "" && n != "_" {
				vars[n] = rs[i]
			}
		}
		// convention: an unnamed trailing error result is called err
		if n := sig.Results().Len(); n > 0 && sig.Results().At(n-1).Name() == "" && isErrorType(sig.Results().At(n-1).Type()) {
			if _, taken := vars["err"]; !taken {
				vars["err"] = rs[n-1]
			}
		}
	}
}

func isErrorType(t types.Type) bool {
	n, ok := t.(*types.Named)
	return ok && n.Obj().Pkg() == nil && n.Obj().Name() == "error"
}

func (x *Exec) applyContract(fr *Frame, st *State, c *Contract, fn *ssa.Function, args []*Value, resT types.Type, pos token.Pos, name string) *Value {
	if c.Trusted {
		x.trusted["assumed contract of "+c.Name] = true
	}
	var pkg *types.Package
	if fn != nil {
		pkg = x.pkgOfFn(fn)
	}
	if pkg == nil {
		pkg = x.pkgOfFn(fr.fn)
	}
	vars := x.bindParams(c, fn, args)
	if fn != nil && len(fn.FreeVars) > 0 && x.applyBind != nil {
		for i, fv := range fn.FreeVars {
			if i >= len(x.applyBind) {
				break
			}
			v := x.applyBind[i]
			if _, taken := vars[fv.Name()]; taken {
				continue
			}
			if v.K == KPtr {
				if pt, ok := fv.Type().(*types.Pointer); ok {
					vars[fv.Name()] = x.load(st, v.P, pt.Elem())
					continue
				}
			}
			vars[fv.Name()] = v
		}
	}
	pre := st.clone()
	var hint token.Pos
	if fn != nil {
		hint = fn.Pos()
	}
	env := &SpecEnv{x: x, vars: vars, cur: pre, old: pre, pkg: pkg, posHint: hint}
	for _, r := range c.Requires {
		t := x.guardedEval(func() *Term { return env.evalBool(r.E) }, c, r)
		if x.rootFrame != nil && x.rootFrame.contract != nil && x.rootFrame.contract.NoSafety {
			// safety (incl. callee preconditions) is not claimed for this function: the callee's
			// precondition is assumed instead, and listed
			x.trusted["nosafety: preconditions of "+name+" assumed at its call in "+funcDisplayName(x.rootFrame.fn)] = true
			x.assume(st, t)
			continue
		}
		x.oblige(fr, st, "call.pre", name, labelOr(r.Label, ""), t, pos, r.Src)
	}
	// frame
	if len(c.Callbacks) > 0 {
		x.invokeCallbacks(st, c, fn, args)
	}
	if c.AssignsAll || (!c.HasAssigns && !c.Pure) {
		// no frame clause: the callee may write anything
		x.havocAll(st)
		if os.Getenv("GVC_DEBUG") != "" {
			x.note("no frame clause: " + name)
		}
	} else {
		for _, a := range c.Assigns {
			x.havocLvalue(env, st, a)
		}
	}
	var sig *types.Signature
	if fn != nil {
		sig = fn.Signature
	}
	res := x.freshResult(st, resT, "r_"+shortName(name))
	if res != nil && !c.Pure && valueHasRefLeaf(res) {
		// what the callee returns exists now - it was there before the call or the callee allocated it - so
		// everything this function allocates from here on differs from it: a new allocation epoch whose
		// base bounds the result's references
		x.boundRefs(res, x.allocEpoch())
	}
	// deterministic pure externs: results are functions of the arguments
	if c.Pure && res != nil {
		ats := x.pureArgTerms(st, args)
		i := 0
		res = buildValue(resT, func(l Leaf) *Term {
			t := x.ctx.App(fmt.Sprintf("f$%s$%d", sanitize(name), i), l.Sort, ats...)
			i++
			return t
		})
		x.assumeTypeInv(res, st.guard)
	}
	if c.Trusted && res != nil {
		x.assumeZeroOffsets(res)
	}
	if c.ZeroOffsets && res != nil {
		x.zeroOffsetsStructural(res) // proved on the callee (obligation zero-offset at its exit)
	}
	post := &SpecEnv{x: x, vars: map[string]*Value{}, cur: st, old: pre, pkg: pkg, posHint: hint}
	for k, v := range vars {
		post.vars[k] = v
	}
	// a closure called through its contract: the variables it captures by reference and assigns hold arbitrary
	// values afterwards (its postconditions speak about them as post_<name>)
	if fn != nil && len(fn.FreeVars) > 0 && x.applyBind != nil {
		for i, fv := range fn.FreeVars {
			if i >= len(x.applyBind) {
				break
			}
			v := x.applyBind[i]
			pt, isPtr := fv.Type().(*types.Pointer)
			if v.K != KPtr || !isPtr {
				continue
			}
			if closureAssigns(fn, i) {
				nv := x.freshValue("cap_"+fv.Name(), pt.Elem(), st.guard)
				if nv.K == KSlice && c.ZeroOffsets {
					nv.Off = IntLit(0) // obliged at every store of the closure (its own verification)
				}
				x.store(st, v.P, nv)
			}
			post.vars["post_"+fv.Name()] = x.load(st, v.P, pt.Elem())
		}
	}
	x.bindResults(c, fn, post.vars, res, sig)
	for _, e := range c.Ensures {
		if exprUsesGhost(e.E) {
			continue // clauses about the callee's own calls (called / ret) are only checked, never assumed by callers
		}
		t := x.guardedEval(func() *Term { return post.evalBool(e.E) }, c, e)
		x.assume(st, t)
	}
	return res
}

func (x *Exec) argsTouchHeap(args []*Value) bool {
	for _, a := range args {
		switch a.K {
		case KPtr, KSlice:
			return true
		}
		if a.K == KScalar && a.T != nil {
			if _, ok := under(a.T).(*types.Map); ok {
				return true
			}
		}
	}
	return false
}

func shortName(n string) string {
	if i := strings.LastIndex(n, "."); i >= 0 {
		return n[i+1:]
	}
	return n
}

func (x *Exec) guardedEval(f func() *Term, c *Contract, cl Clause) (t *Term) {
	defer func() {
		if r := recover(); r != nil {
			if se, ok := r.(specErr); ok {
				panic(specErr{fmt.Sprintf("%s:%d: contract %s: clause %q: %s", c.File, c.Line, c.Name, cl.Src, se.msg)})
			}
			if _, ok := r.(unsupported); ok {
				panic(r)
			}
			// a clause that no longer type-checks against the function as it is now (a local it names changed its
			// type, e.g. a slice became a map): the contract does not apply - undecided, never a crash
			panic(specErr{fmt.Sprintf("%s:%d: contract %s: clause %q does not fit the function as it is now: %v", c.File, c.Line, c.Name, cl.Src, r)})
		}
	}()
	return f()
}

// havocLvalue havocs the heap locations denoted by an assigns item.
func (x *Exec) havocLvalue(env *SpecEnv, st *State, e *Expr) {
	for _, loc := range x.lvalueLocs(env, e) {
		arr := x.heapArr(st, loc.key, loc.sort)
		var nv *Term
		if loc.whole {
			nv = x.ctx.Fresh("hv_"+shortKey(loc.key), loc.sort)
		} else {
			hv := x.ctx.Fresh("hv_"+shortKey(loc.key), loc.sort.Val)
			if loc.slice {
				// a nil slice has no elements: `s[*]` of a nil slice denotes nothing
				hv = Ite(Eq(loc.ref, x.null()), Select(arr, loc.ref), hv)
			}
			nv = Store(arr, loc.ref, hv)
		}
		st.heap[loc.key] = nv
		if loc.whole {
			x.noteWrite(loc.key, nil)
		} else {
			x.noteWrite(loc.key, loc.ref) // only this object's row changes: lets loops frame the rest
		}
	}
}

type heapLoc struct {
	key   string
	sort  *Sort
	ref   *Term
	whole bool
	slice bool // elements of a slice: a nil slice has none
}

// lvalueLocs resolves an assigns item to heap arrays (+ the object ref whose row may change).
func (x *Exec) lvalueLocs(env *SpecEnv, e *Expr) []heapLoc {
	var out []heapLoc
	switch e.Op {
	case "allelems":
		// s[*] : all elements of slice s (all fields), or m[*]: all entries of map m
		v := env.eval(e.Args[0])
		if v.K == KPtr {
			v = env.deref(v)
		}
		if v.K == KSlice {
			et := under(v.T).(*types.Slice).Elem()
			p := &Pointer{Base: v.Ref, ObjT: et, Elem: true, Idx: IntLit(0)}
			for _, l := range leavesOf(et) {
				key, stored, _ := x.leafKey(p, l)
				out = append(out, heapLoc{key: key, sort: stored, ref: v.Ref, slice: true})
			}
			return out
		}
		if _, ok := under(v.T).(*types.Map); ok {
			mi := x.mapInfoOf(v.T)
			out = append(out, heapLoc{key: "MP:" + mi.key, sort: ArraySort(RefSort, curried(mi.kLeaves, BoolSort)), ref: v.Term})
			out = append(out, heapLoc{key: "ML:" + mi.key, sort: ArraySort(RefSort, IntSort), ref: v.Term})
			for _, l := range leavesOf(mi.vT) {
				out = append(out, heapLoc{key: "MV:" + mi.key + "/" + l.Path, sort: ArraySort(RefSort, curried(mi.kLeaves, l.Sort)), ref: v.Term})
			}
			return out
		}
		specFail("assigns %s: not a slice or map", e)
	case "field":
		// s[*].f  or p.f
		if e.Args[0].Op == "allelems" {
			v := env.eval(e.Args[0].Args[0])
			if v.K != KSlice {
				specFail("assigns %s: not a slice", e)
			}
			et := under(v.T).(*types.Slice).Elem()
			st, ok := under(et).(*types.Struct)
			if !ok {
				specFail("assigns %s: elements are not structs", e)
			}
			for i := 0; i < st.NumFields(); i++ {
				if st.Field(i).Name() == e.Name {
					p := &Pointer{Base: v.Ref, ObjT: et, Elem: true, Idx: IntLit(0), Path: []PathElem{{Field: i}}}
					for _, l := range leavesOf(st.Field(i).Type()) {
						key, stored, _ := x.leafKey(p, l)
						out = append(out, heapLoc{key: key, sort: stored, ref: v.Ref})
					}
					return out
				}
			}
			specFail("assigns %s: no such field", e)
		}
		base := env.eval(e.Args[0])
		if base.K != KPtr {
			specFail("assigns %s: base is not a pointer", e)
		}
		t := derefType(base)
		obj, index, _ := types.LookupFieldOrMethod(t, true, env.pkgOf(t), e.Name)
		if _, ok := obj.(*types.Var); !ok {
			specFail("assigns %s: no such field", e)
		}
		p := *base.P
		ct := t
		for _, fi := range index {
			p.Path = append(append([]PathElem(nil), p.Path...), PathElem{Field: fi})
			ct = under(ct).(*types.Struct).Field(fi).Type()
		}
		if p.ObjT == nil {
			p.ObjT = t
		}
		for _, l := range leavesOf(ct) {
			key, stored, _ := x.leafKey(&p, l)
			out = append(out, heapLoc{key: key, sort: stored, ref: p.Base})
		}
		return out
	case "unary":
		if e.Name == "*" {
			base := env.eval(e.Args[0])
			if base.K != KPtr {
				specFail("assigns %s: not a pointer", e)
			}
			t := derefType(base)
			for _, l := range leavesOf(t) {
				key, stored, _ := x.leafKey(base.P, l)
				out = append(out, heapLoc{key: key, sort: stored, ref: base.P.Base})
			}
			return out
		}
	case "call":
		// alloc(T): the function may allocate / initialise objects of that type (whole arrays havocked for fresh refs only)
	}
	specFail("unsupported assigns item %s", e)
	return nil
}

// ---- checking the root function's contract ----

func (x *Exec) evalClause(fr *Frame, c Clause, cur, old *State, extra map[string]*Value) *Term {
	vars := map[string]*Value{}
	for i, p := range fr.fn.Params {
		vars[p.Name()] = fr.params[i]
	}
	for i, fv := range fr.fn.FreeVars {
		// captured variables are bound to their value at entry
		v := fr.bind[i]
		if v.K == KPtr {
			if pt, ok := fv.Type().(*types.Pointer); ok {
				vars[fv.Name()] = x.load(fr.entry, v.P, pt.Elem())
				continue
			}
		}
		vars[fv.Name()] = v
	}
	for i, fv := range fr.fn.FreeVars {
		// post_<name>: value of a captured-by-reference variable in the state the clause is evaluated in
		v := fr.bind[i]
		if v.K == KPtr {
			if pt, ok := fv.Type().(*types.Pointer); ok {
				vars["post_"+fv.Name()] = x.load(cur, v.P, pt.Elem())
			}
		}
	}
	for k, v := range extra {
		if _, isParam := vars[k]; isParam && k == "result" {
			continue // a parameter called "result" keeps its meaning
		}
		vars[k] = v
	}
	env := &SpecEnv{x: x, vars: vars, cur: cur, old: old, pkg: x.pkgOfFn(fr.fn), fr: fr}
	return x.guardedEval(func() *Term { return env.evalBool(c.E) }, fr.contractOrEmpty(), c)
}

func (fr *Frame) contractOrEmpty() *Contract {
	if fr.contract != nil {
		return fr.contract
	}
	return &Contract{Name: fr.fn.Name()}
}

func (x *Exec) evalInvariant(fr *Frame, li *loopInfo, c Clause, st *State) *Term {
	vars := map[string]*Value{}
	env := &SpecEnv{x: x, vars: vars, cur: st, old: fr.entry, pkg: x.pkgOfFn(fr.fn), fr: fr, li: li, at: li.header}
	con := x.contractFor(fr.fn)
	if x.lenientLoops {
		return x.lenientLoopClause(func() *Term { return x.guardedEval(func() *Term { return env.evalBool(c.E) }, con, c) })
	}
	return x.guardedEval(func() *Term { return env.evalBool(c.E) }, con, c)
}

// lenientLoopClause evaluates a loop clause; one that no longer fits the loop it is attached to counts as
// the trivial clause (check.go: only used for functions that verified on the pinned tree).
func (x *Exec) lenientLoopClause(f func() *Term) (t *Term) {
	defer func() {
		if r := recover(); r != nil {
			if se, ok := r.(specErr); ok && loopShapeMismatch(se.msg) {
				t = True
				return
			}
			panic(r)
		}
	}()
	return f()
}

func (x *Exec) checkEnsures(fr *Frame, st *State, vals []*Value, pos token.Pos) {
	c := fr.contract
	if c == nil {
		return
	}
	extra := map[string]*Value{}
	res := tupleOf(vals, fr.fn.Signature.Results())
	x.bindResults(c, fr.fn, extra, res, fr.fn.Signature)
	for _, e := range c.Ensures {
		if e.Defining {
			x.trusted["definition: "+c.Name+" is a deterministic function of the contents of its arguments, named by: "+e.Src] = true
			continue
		}
		t := x.evalClause(fr, e, st, fr.entry, extra)
		x.oblige(fr, st, "ensures", "", e.Label, t, pos, e.Src)
	}
	if c.ZeroOffsets {
		var offs []*Term
		var walk func(v *Value)
		walk = func(v *Value) {
			if v == nil {
				return
			}
			switch v.K {
			case KSlice:
				if v.Off != nil {
					offs = append(offs, Eq(v.Off, IntLit(0)))
				}
			case KStruct, KTuple:
				for _, f := range v.Fields {
					walk(f)
				}
			}
		}
		walk(res)
		x.oblige(fr, st, "ensures", "", "zero-offset", And(offs...), pos, "zerooffsets")
	}
	// goroutine bodies: Done() is called exactly once on each WaitGroup named by `signals`
	for _, sg := range c.Signals {
		if p := x.signalTarget(fr.fn, fr.bind, fr.params, sg, fr.entry, c); p != nil {
			x.oblige(fr, st, "sync", "", "signals-exactly-once:"+sg.Src, Eq(x.ghostGet(st, gWgDone, IntSort, p), Add(x.ghostGet(fr.entry, gWgDone, IntSort, p), IntLit(1))), pos, sg.Src)
		}
	}
	// stable predicates of a closure: true before the call implies true after it
	for _, e := range c.Stable {
		pre := x.stableTerm(fr, e, fr.entry)
		post := x.stableTerm(fr, e, st)
		x.oblige(fr, st, "ensures", "", "stable:"+e.Label, Implies(pre, post), pos, e.Src)
	}
	x.checkFrame(fr, st, pos)
}

// stableTerm evaluates a `stable` predicate of closure frame fr with the captured variables read in state s.
func (x *Exec) stableTerm(fr *Frame, e Clause, s *State) *Term {
	return x.stableTermBind(fr.fn, fr.bind, e, s, fr.contractOrEmpty())
}

func (x *Exec) stableTermBind(fn *ssa.Function, bind []*Value, e Clause, s *State, c *Contract) *Term {
	vars := map[string]*Value{}
	for i, fv := range fn.FreeVars {
		if i >= len(bind) {
			break
		}
		v := bind[i]
		if v.K == KPtr {
			if pt, ok := fv.Type().(*types.Pointer); ok {
				vars[fv.Name()] = x.load(s, v.P, pt.Elem())
				continue
			}
		}
		vars[fv.Name()] = v
	}
	env := &SpecEnv{x: x, vars: vars, cur: s, old: s, pkg: x.pkgOfFn(fn)}
	return x.guardedEval(func() *Term { return env.evalBool(e.E) }, c, e)
}

// invokeCallbacks models an extern that calls a callback argument any number of times: when the
// callback is a closure of this repository with a contract, the variables it captures by
// reference become arbitrary, except that each of its `stable` predicates that held before
// still holds; otherwise everything reachable is havocked.
func (x *Exec) invokeCallbacks(st *State, c *Contract, fn *ssa.Function, args []*Value) {
	names := c.Params
	for _, cbName := range c.Callbacks {
		idx := -1
		for i, n := range names {
			if n == cbName {
				idx = i
			}
		}
		if idx < 0 || idx >= len(args) {
			x.havocAll(st)
			continue
		}
		fv := args[idx]
		if (fv.K != KFunc || fv.Fn == nil) && x.rootFrame != nil && x.rootFrame.contract != nil && x.rootFrame.contract.SelfCallback && x.rootFrame.fn.Parent() != nil {
			// recursive closure (`var f func..; f = func.. { .. g(f) .. }`): the captured function variable holds this closure
			x.trusted["selfcallback: the function value "+funcDisplayName(x.rootFrame.fn)+" passes on is the closure itself (the variable it captures is assigned exactly once, to this closure)"] = true
			fv = &Value{K: KFunc, T: fv.T, Fn: x.rootFrame.fn, Bind: x.rootFrame.bind}
		}
		if fv.K == KFunc && fv.Fn == nil && fv.Term != nil && fv.Term.Op == "const" {
			if cv, ok := x.closures[fv.Term.Name]; ok {
				fv = cv // a closure created in this execution, read back from a variable
			}
		}
		if fv.K != KFunc || fv.Fn == nil {
			x.unmod["callback of unknown identity passed to "+c.Name] = true
			x.havocAll(st)
			continue
		}
		cc := x.contractFor(fv.Fn)
		if cc == nil {
			x.unmod["callback "+funcDisplayName(fv.Fn)+" has no contract"] = true
			x.havocAll(st)
			continue
		}
		pre := st.clone()
		var pres []*Term
		for _, e := range cc.Stable {
			pres = append(pres, x.stableTermBind(fv.Fn, fv.Bind, e, pre, cc))
		}
		for i, b := range fv.Bind {
			if b.K == KPtr && i < len(fv.Fn.FreeVars) {
				if pt, ok := fv.Fn.FreeVars[i].Type().(*types.Pointer); ok {
					nv := x.freshValue("cb_"+fv.Fn.FreeVars[i].Name(), pt.Elem(), st.guard)
					x.boundRefs(nv, x.allocNow())
					x.store(st, b.P, nv)
				}
			}
		}
		for k, e := range cc.Stable {
			post := x.stableTermBind(fv.Fn, fv.Bind, e, st, cc)
			x.assume(st, Implies(pres[k], post))
		}
		x.trusted["callbacks passed to "+c.Name+" only touch what they capture (their `stable` predicates are proved on the closure body)"] = true
	}
}

// checkFrame: every heap location not covered by `assigns` keeps its entry value, except in
// objects allocated during the call.
func (x *Exec) checkFrame(fr *Frame, st *State, pos token.Pos) {
	c := fr.contract
	if c == nil || c.AssignsAll || !c.HasAssigns {
		return
	}
	vars := map[string]*Value{}
	for i, p := range fr.fn.Params {
		vars[p.Name()] = fr.params[i]
	}
	x.bindFreeVars(fr, fr.entry, vars) // a closure's frame clause may name what it captures
	env := &SpecEnv{x: x, vars: vars, cur: fr.entry, old: fr.entry, pkg: x.pkgOfFn(fr.fn), fr: fr}
	allowed := map[string][]*Term{}
	for _, a := range c.Assigns {
		for _, loc := range x.lvalueLocs(env, a) {
			allowed[loc.key] = append(allowed[loc.key], loc.ref)
		}
	}
	// a closure may assign the variables it captures by reference (its contract speaks about them as post_<name>)
	for i, fv := range fr.fn.FreeVars {
		if i >= len(fr.bind) {
			break
		}
		v := fr.bind[i]
		pt, isPtr := fv.Type().(*types.Pointer)
		if v.K != KPtr || !isPtr || v.P.Cell != nil || !closureAssigns(fr.fn, i) {
			continue
		}
		for _, l := range leavesOf(pt.Elem()) {
			key, _, _ := x.leafKey(v.P, l)
			allowed[key] = append(allowed[key], v.P.Base)
		}
	}
	if st.havocID != 0 {
		// an unmodelled call may have written anything, including arrays this function never reads
		x.oblige(fr, st, "frame", "*", "", False, pos, "assigns (an unmodelled call on some path may write anything)")
	}
	var keys []string
	for k := range st.heap {
		keys = append(keys, k)
	}
	sort.Strings(keys)
	x.useAxioms("alloc")
	for _, k := range keys {
		cur := st.heap[k]
		h0 := x.ctx.Const("H0_"+k, x.heapSort[k])
		if cur == h0 || cur.String() == h0.String() {
			continue
		}
		r := BoundVar("r", RefSort)
		var exempt []*Term
		exempt = append(exempt, Gt(x.ctx.App("allocId", IntSort, r), IntLit(0)))
		if x.jsonFreshUsed {
			// containers allocated by encoding/json during this call (assumed decoding law)
			exempt = append(exempt, x.ctx.App("jsonFresh", BoolSort, r))
		}
		for _, a := range allowed[k] {
			exempt = append(exempt, Eq(r, a))
		}
		goal := Forall([]*Term{r}, Or(append(exempt, Eq(Select(cur, r), Select(h0, r)))...))
		x.oblige(fr, st, "frame", k, "", goal, pos, "assigns")
	}
}

// ---- vacuity / cover ----

type VerifyResult struct {
	Func        string
	Obligations []*Obligation
	Facts       []*Term
	Covers      []*Obligation // reachability (must be sat)
	Err         error
	Trusted     []string
	Unmodelled  []string
	Notes       []string
	Fit         *FitInfo
}

// FitInfo describes the shape of a function that its contract's internal annotations (loop clauses keyed by
// ordinal, clauses naming local variables, clauses about direct calls) were written for.
type FitInfo struct {
	Loops   []string          `json:"loops,omitempty"`   // kind of each loop, by ordinal
	Helpers []string          `json:"helpers,omitempty"` // inlined repository functions that have no contract entry
	Idents  map[string]string `json:"idents,omitempty"`  // contract identifier -> kind(s) of Go variable it names
}

// VerifyFunction symbolically executes fn against its contract and returns the obligations.
func (x *Exec) VerifyFunction(fn *ssa.Function, c *Contract) (res *VerifyResult) {
	res = &VerifyResult{Func: funcDisplayName(fn)}
	defer func() {
		if r := recover(); r != nil {
			switch e := r.(type) {
			case unsupported:
				res.Err = e
			case specErr:
				res.Err = e
			default:
				panic(r)
			}
		}
		res.Obligations = x.obls
		res.Facts = x.facts
		for k := range x.trusted {
			res.Trusted = append(res.Trusted, k)
		}
		sort.Strings(res.Trusted)
		for k := range x.unmod {
			res.Unmodelled = append(res.Unmodelled, k)
		}
		sort.Strings(res.Unmodelled)
		res.Notes = x.notes
		fit := &FitInfo{Loops: x.fitLoops, Idents: map[string]string{}}
		for h := range x.fitHelpers {
			fit.Helpers = append(fit.Helpers, h)
		}
		sort.Strings(fit.Helpers)
		for n, ks := range x.fitIdents {
			var l []string
			for k := range ks {
				l = append(l, k)
			}
			sort.Strings(l)
			fit.Idents[n] = strings.Join(l, "+")
		}
		res.Fit = fit
	}()
	x.root = fn
	st := &State{guard: True, heap: map[string]*Term{}, cells: map[*Cell]*Value{}}
	var args []*Value
	x.inputs = map[string]*Term{}
	for _, p := range fn.Params {
		v := x.freshValue("in_"+p.Name(), p.Type(), True)
		args = append(args, v)
	}
	var bind []*Value
	for _, fv := range fn.FreeVars {
		v := x.freshValue("fv_"+fv.Name(), fv.Type(), True)
		if v.K == KPtr {
			// captured variables are cells that always exist
			x.facts = append(x.facts, Neq(v.P.Base, x.null()))
		}
		bind = append(bind, v)
	}
	// a captured function value that the enclosing function binds to another closure literal (isIn := func..;
	// iter := func(){ .. isIn(x) .. }) has a statically known identity: calls through it are calls of that closure,
	// whose own captures are this closure's captures of the same variables
	x.bindSiblingClosures(fn, bind)
	x.zeroOffBases = nil
	if c != nil && c.ZeroOffsets && fn.Parent() != nil {
		x.zeroOffBases = map[string]bool{}
		for i, fv := range fn.FreeVars {
			if pt, ok := fv.Type().(*types.Pointer); ok && bind[i].K == KPtr {
				if _, isSlice := pt.Elem().Underlying().(*types.Slice); isSlice {
					x.zeroOffBases[bind[i].P.Base.String()] = true
					x.trusted["zerooffsets: the slice variable "+fv.Name()+" captured by "+funcDisplayName(fn)+" has offset 0 when the closure is first entered (the enclosing function initialises it to nil or to an append result)"] = true
				}
			}
		}
	}
	// input slices start at offset 0
	for _, a := range append(append([]*Value{}, args...), bind...) {
		x.assumeZeroOffsets(a)
	}
	// entry objects predate every allocation
	x.useAxioms("alloc")
	for _, a := range append(append([]*Value{}, args...), bind...) {
		for i, l := range leavesOf(a.T) {
			if l.Sort.Kind == SRef {
				x.facts = append(x.facts, Le(x.ctx.App("allocId", IntSort, leafTerms(a)[i]), IntLit(0)))
			}
		}
	}
	fr0 := &Frame{fn: fn, params: args, bind: bind, entry: st, contract: c}
	if c != nil {
		for _, r := range c.Requires {
			t := x.evalClause(fr0, r, st, st, nil)
			x.facts = append(x.facts, t)
		}
	}
	x.entryFacts = append([]*Term(nil), x.facts...)
	x.rootArgs = args
	x.execFunction(fn, st, args, bind, c, true, 0)
	return res
}

// callSiteObligations: "calls <callee> P" clauses of the root contract must hold at every call of
// the callee; the ghost flag called(<callee>) is set.
func (x *Exec) callSiteObligations(fr *Frame, st *State, fn *ssa.Function, name string, args []*Value, pos token.Pos) {
	if x.rootFrame == nil || x.rootFrame.contract == nil {
		return
	}
	short := funcDisplayName(fn)
	genBase, genInst := genericNames(fn)
	matches := func(callee string) bool {
		return callee == name || callee == short || callee == fn.Name() || (fn.Pkg != nil && callee == fn.Pkg.Pkg.Name()+"."+short) ||
			(genBase != "" && (callee == genBase || callee == genInst))
	}
	for _, cc := range x.rootFrame.contract.Calls {
		callee := cc.Callee
		if strings.HasSuffix(callee, "@root") {
			// only calls made directly by the function under contract, not by inlined callees that carry a
			// contract entry of their own (`inline`); a helper without any contract entry (one the contract's
			// author never saw, e.g. a few lines extracted from this function later) counts as part of it
			if fr != x.rootFrame && !x.onlyAnonymousHelpersAboveRoot() {
				continue
			}
			callee = strings.TrimSuffix(callee, "@root")
		}
		if !matches(callee) {
			continue
		}
		vars := map[string]*Value{}
		root := x.rootFrame
		for i, p := range root.fn.Params {
			vars[p.Name()] = root.params[i]
			vars["root_"+p.Name()] = root.params[i] // not shadowed by a callee parameter of the same name
		}
		x.bindFreeVars(root, st, vars)
		oldVars := map[string]*Value{}
		for k, v := range vars {
			oldVars[k] = v
		}
		// callee parameters (shadowing)
		if ec, ok := x.db.Externs[name]; ok && len(ec.Params) > 0 {
			for i, p := range ec.Params {
				if i < len(args) {
					vars[p] = args[i]
				}
			}
		} else {
			for i, p := range fn.Params {
				if i < len(args) {
					vars[p.Name()] = args[i]
				}
			}
		}
		env := &SpecEnv{x: x, vars: vars, cur: st, old: root.entry, pkg: x.pkgOfFn(root.fn), oldVars: oldVars}
		// a call made by the function under contract itself: its local variables are in scope, with the values
		// they have at the call (the definition that reaches the call instruction)
		x.resolveLimit = 0
		if fr == root {
			if blk, idx := callInstrAt(root.fn, pos); blk != nil {
				env.fr, env.at = root, blk
				x.resolveLimit = idx
			}
		}
		t := x.guardedEval(func() *Term { return env.evalBool(cc.C.E) }, root.contract, cc.C)
		x.resolveLimit = 0
		lbl := cc.C.Label
		if lbl == "" {
			lbl = shortName(cc.Callee)
		}
		x.oblige(root, st, "calls", "", lbl, t, pos, cc.C.Src)
	}
	// ghost call counter
	if x.ncallCells != nil {
		for _, k := range []string{name, short, fn.Name(), genBase, genInst} {
			if c, ok := x.ncallCells[k]; ok && k != "" {
				if cur, have := st.cells[c]; have {
					st.cells[c] = scalar(tInt, Add(cur.Term, IntLit(1)))
					x.cellsW[c] = true
				}
				break
			}
		}
	}
	// ghost flag
	if x.calledCells != nil {
		if c, ok := x.calledCells[name]; ok {
			st.cells[c] = scalar(tBool, True)
			x.cellsW[c] = true
		} else if c, ok := x.calledCells[short]; ok {
			st.cells[c] = scalar(tBool, True)
			x.cellsW[c] = true
		} else if c, ok := x.calledCells[fn.Name()]; ok {
			st.cells[c] = scalar(tBool, True)
			x.cellsW[c] = true
		}
		if genBase != "" {
			for _, k := range []string{genBase, genInst} {
				if c, ok := x.calledCells[k]; ok {
					st.cells[c] = scalar(tBool, True)
					x.cellsW[c] = true
				}
			}
		}
	}
}

// assumeZeroOffsets: see offsetAssumption.
func (x *Exec) assumeZeroOffsets(v *Value) {
	switch v.K {
	case KSlice:
		if v.Off.Op != "int" {
			// structural: the offset IS the literal 0 (keeps element indices free of symbolic offsets)
			x.facts = append(x.facts, Eq(v.Off, IntLit(0)))
			v.Off = IntLit(0)
			x.trusted[offsetAssumption] = true
		}
	case KStruct, KTuple:
		for _, f := range v.Fields {
			x.assumeZeroOffsets(f)
		}
	}
}

func (x *Exec) pureFuncType(t types.Type) bool {
	n, ok := t.(*types.Named)
	if !ok || n.Obj().Pkg() == nil {
		return false
	}
	return x.db.FuncTypes[n.Obj().Pkg().Name()+"."+n.Obj().Name()]
}

// pureFuncCall: result of calling a value of a pure named func type: uninterpreted functions of
// (function identity, arguments).
func (x *Exec) pureFuncCall(fv *Value, t types.Type, args []*Value, resT types.Type) *Value {
	n := t.(*types.Named)
	name := n.Obj().Pkg().Name() + "." + n.Obj().Name()
	x.trusted["values of func type "+name+" are pure, deterministic functions of their arguments"] = true
	ts := []*Term{fv.Term}
	for _, a := range args {
		ts = append(ts, leafTerms(a)...)
	}
	if resT == nil {
		return nil
	}
	i := 0
	v := buildValue(resT, func(l Leaf) *Term {
		r := x.ctx.App(fmt.Sprintf("ft$%s$%d", sanitize(name), i), l.Sort, ts...)
		i++
		return r
	})
	x.facts = append(x.facts, x.typeInv(v))
	x.boundRefs(v, x.allocNow())
	if law, ok := x.db.FuncTypeLaws[name]; ok && x.lawState != nil && !termsHaveBoundVar(ts) {
		env := &SpecEnv{x: x, vars: map[string]*Value{"result": v}, cur: x.lawState, old: x.lawState}
		func() {
			defer func() {
				if r := recover(); r != nil {
					if _, isSpec := r.(specErr); !isSpec {
						panic(r)
					}
				}
			}()
			x.facts = append(x.facts, env.evalBool(law))
		}()
	}
	return v
}

// ifaceCallSiteObligations: "calls Iface.Method P" / "calls Method P" clauses at interface method calls.
func (x *Exec) ifaceCallSiteObligations(fr *Frame, st *State, recv *Value, m *types.Func, args []*Value, pos token.Pos) {
	if x.rootFrame == nil || x.rootFrame.contract == nil {
		return
	}
	full := shortType(recv.T) + "." + m.Name()
	root := x.rootFrame
	for _, cc := range root.contract.Calls {
		callee := cc.Callee
		if strings.HasSuffix(callee, "@root") {
			if fr != x.rootFrame {
				continue
			}
			callee = strings.TrimSuffix(callee, "@root")
		}
		if callee != full && callee != m.Name() {
			continue
		}
		vars := map[string]*Value{}
		for i, p := range root.fn.Params {
			vars[p.Name()] = root.params[i]
			vars["root_"+p.Name()] = root.params[i]
		}
		x.bindFreeVars(root, st, vars)
		oldVars := map[string]*Value{}
		for k, v := range vars {
			oldVars[k] = v
		}
		sig := m.Type().(*types.Signature)
		for i := 0; i < sig.Params().Len() && i < len(args); i++ {
			if n := sig.Params().At(i).Name(); n != "" {
				vars[n] = args[i]
			}
			vars[fmt.Sprintf("arg%d", i)] = args[i]
		}
		vars["recv"] = recv
		env := &SpecEnv{x: x, vars: vars, cur: st, old: root.entry, pkg: x.pkgOfFn(root.fn), oldVars: oldVars}
		x.resolveLimit = 0
		if fr == root {
			if blk, idx := callInstrAt(root.fn, pos); blk != nil {
				env.fr, env.at = root, blk
				x.resolveLimit = idx
			}
		}
		t := x.guardedEval(func() *Term { return env.evalBool(cc.C.E) }, root.contract, cc.C)
		x.resolveLimit = 0
		lbl := cc.C.Label
		if lbl == "" {
			lbl = m.Name()
		}
		x.oblige(root, st, "calls", "", lbl, t, pos, cc.C.Src)
	}
	if x.calledCells != nil {
		for _, k := range []string{full, m.Name()} {
			if c, ok := x.calledCells[k]; ok {
				st.cells[c] = scalar(tBool, True)
				x.cellsW[c] = true
			}
		}
	}
	// ghost call counter (as for static calls)
	if x.ncallCells != nil {
		for _, k := range []string{full, m.Name()} {
			if c, ok := x.ncallCells[k]; ok {
				if cur, have := st.cells[c]; have {
					st.cells[c] = scalar(tInt, Add(cur.Term, IntLit(1)))
					x.cellsW[c] = true
				}
				break
			}
		}
	}
}

func exprUsesGhost(e *Expr) bool {
	if e == nil {
		return false
	}
	if e.Op == "call" && e.Args[0].Op == "ident" && (e.Args[0].Name == "called" || e.Args[0].Name == "ret" || e.Args[0].Name == "arg" || e.Args[0].Name == "after" || e.Args[0].Name == "ncalls") {
		return true
	}
	for _, a := range e.Args {
		if exprUsesGhost(a) {
			return true
		}
	}
	return false
}

// pureArgTerms: what a pure extern's result is a function of: scalar leaves, object identities,
// and for byte slices their current contents.
func (x *Exec) pureArgTerms(st *State, args []*Value) []*Term {
	var ats []*Term
	for _, a := range args {
		if a.K == KFunc && a.Term == nil {
			continue
		}
		if a.K == KSlice {
			if sl, ok := under(a.T).(*types.Slice); ok {
				if b, ok := under(sl.Elem()).(*types.Basic); ok && b.Kind() == types.Uint8 {
					ats = append(ats, x.bytesToStr(st, a))
					continue
				}
			}
		}
		ats = append(ats, leafTerms(a)...)
	}
	return ats
}

// genericNames returns, for an instantiation f[T1,T2], the names "f" and "f[T1,T2]" with the
// type arguments written without package paths ("" when fn is not an instantiation).
func genericNames(fn *ssa.Function) (string, string) {
	if fn == nil || len(fn.TypeArgs()) == 0 {
		return "", ""
	}
	base := fn.Name()
	if i := strings.Index(base, "["); i >= 0 {
		base = base[:i]
	}
	var as []string
	for _, t := range fn.TypeArgs() {
		as = append(as, shortType(t))
	}
	return base, base + "[" + strings.Join(as, ",") + "]"
}

// callbackCall: result of calling a function value of unknown identity under `purecallbacks`:
// uninterpreted functions of (function identity, argument leaves).
func (x *Exec) callbackCall(fv *Value, ft types.Type, args []*Value, resT types.Type) *Value {
	x.trusted["callbacks supplied by the caller (function values of unknown identity) are pure, deterministic functions of their arguments"] = true
	ts := []*Term{fv.Term}
	for _, a := range args {
		ts = append(ts, leafTerms(a)...)
	}
	if resT == nil {
		return nil
	}
	i := 0
	sigName := sanitize(shortType(ft))
	v := buildValue(resT, func(l Leaf) *Term {
		r := x.ctx.App(fmt.Sprintf("cb$%s$%d", sigName, i), l.Sort, ts...)
		i++
		return r
	})
	x.facts = append(x.facts, x.typeInv(v))
	x.boundRefs(v, x.allocNow())
	return v
}

// recordArgs: ghost arg(F, i) — the arguments of the most recent call of a tracked callee.
func (x *Exec) recordArgs(st *State, name string, args []*Value) {
	for i, a := range args {
		key := fmt.Sprintf("%s#%d", name, i)
		c, ok := x.argCells[key]
		if !ok {
			x.cellID++
			c = &Cell{Name: "arg$" + key, ID: x.cellID}
			x.argCells[key] = c
		}
		c.T = a.T
		st.cells[c] = a
		x.cellsW[c] = true
	}
}

// bindFreeVars: captured variables of a closure under verification, by name (current values).
func (x *Exec) bindFreeVars(fr *Frame, st *State, vars map[string]*Value) {
	for i, fv := range fr.fn.FreeVars {
		if i >= len(fr.bind) {
			break
		}
		v := fr.bind[i]
		if v.K == KPtr {
			if pt, ok := fv.Type().(*types.Pointer); ok {
				if _, taken := vars[fv.Name()]; !taken {
					vars[fv.Name()] = x.load(st, v.P, pt.Elem())
				}
				continue
			}
		}
		if _, taken := vars[fv.Name()]; !taken {
			vars[fv.Name()] = v
		}
	}
}

func valueHasRefLeaf(v *Value) (has bool) {
	defer func() {
		if recover() != nil {
			has = false
		}
	}()
	for _, t := range leafTerms(v) {
		if t.Sort.Kind == SRef {
			return true
		}
	}
	return false
}

// onlyAnonymousHelpersAboveRoot: every function on the inlining stack above the function under contract is a
// named function of the repository without any contract entry (closures are excluded: they have their own rules).
func (x *Exec) onlyAnonymousHelpersAboveRoot() bool {
	if len(x.stack) < 2 {
		return false
	}
	for _, f := range x.stack[1:] {
		if f.Parent() != nil || !x.inRepo(f) || x.contractFor(f) != nil {
			return false
		}
	}
	return true
}

// callInstrAt finds the call instruction of fn at source position pos (block and index within the block).
func callInstrAt(fn *ssa.Function, pos token.Pos) (*ssa.BasicBlock, int) {
	if !pos.IsValid() {
		return nil, 0
	}
	for _, b := range fn.Blocks {
		for i, in := range b.Instrs {
			if ci, ok := in.(ssa.CallInstruction); ok && ci.Pos() == pos {
				return b, i
			}
		}
	}
	return nil, 0
}

// hasBackEdge: the function's control-flow graph has a cycle (a successor that dominates its predecessor).
func hasBackEdge(fn *ssa.Function) bool {
	for _, b := range fn.Blocks {
		for _, s := range b.Succs {
			if s.Dominates(b) {
				return true
			}
		}
	}
	return false
}

// closureAssigns: the closure (or a closure nested in it that captures the same variable) stores to its i-th free variable.
func closureAssigns(fn *ssa.Function, i int) bool {
	if i >= len(fn.FreeVars) {
		return false
	}
	fv := fn.FreeVars[i]
	for _, b := range fn.Blocks {
		for _, in := range b.Instrs {
			switch in := in.(type) {
			case *ssa.Store:
				if in.Addr == fv {
					return true
				}
			case *ssa.MakeClosure:
				inner, ok := in.Fn.(*ssa.Function)
				if !ok {
					continue
				}
				for j, bnd := range in.Bindings {
					if bnd == fv && closureAssigns(inner, j) {
						return true
					}
				}
			}
		}
	}
	return false
}

// bindSiblingClosures: see VerifyFunction. Only by-value captures (the variable is never reassigned, so go/ssa passes
// the closure value itself) are resolved.
func (x *Exec) bindSiblingClosures(fn *ssa.Function, bind []*Value) {
	parent := fn.Parent()
	if parent == nil {
		return
	}
	var mk *ssa.MakeClosure
	for _, b := range parent.Blocks {
		for _, in := range b.Instrs {
			if m, ok := in.(*ssa.MakeClosure); ok && m.Fn == ssa.Value(fn) {
				if mk != nil {
					return // created at more than one place: not resolved
				}
				mk = m
			}
		}
	}
	if mk == nil {
		return
	}
	for i, bnd := range mk.Bindings {
		if i >= len(bind) {
			break
		}
		sib, ok := bnd.(*ssa.MakeClosure)
		if !ok {
			continue
		}
		sfn, ok := sib.Fn.(*ssa.Function)
		if !ok {
			continue
		}
		var sbind []*Value
		resolved := true
		for _, sb := range sib.Bindings {
			found := false
			for k, mine := range mk.Bindings {
				if mine == sb && k < len(bind) {
					sbind = append(sbind, bind[k])
					found = true
					break
				}
			}
			if !found {
				resolved = false
				break
			}
		}
		if !resolved {
			continue
		}
		bind[i] = &Value{K: KFunc, T: bind[i].T, Fn: sfn, Bind: sbind, Term: x.fnRef(sfn)}
	}
}

// siblingThroughCell resolves a by-reference captured function variable of closure fn to the closure literal the
// enclosing function stores in it (exactly one store in the enclosing function), with that literal's captures
// mapped to fn's own captures of the same variables.
func (x *Exec) siblingThroughCell(fn *ssa.Function, fv *ssa.FreeVar, bind []*Value) (*ssa.Function, []*Value) {
	parent := fn.Parent()
	if parent == nil {
		return nil, nil
	}
	idx := -1
	for i, f := range fn.FreeVars {
		if f == fv {
			idx = i
		}
	}
	var mk *ssa.MakeClosure
	for _, b := range parent.Blocks {
		for _, in := range b.Instrs {
			if m, ok := in.(*ssa.MakeClosure); ok && m.Fn == ssa.Value(fn) {
				if mk != nil {
					return nil, nil
				}
				mk = m
			}
		}
	}
	if mk == nil || idx < 0 || idx >= len(mk.Bindings) {
		return nil, nil
	}
	cell, ok := mk.Bindings[idx].(*ssa.Alloc)
	if !ok {
		return nil, nil
	}
	var sib *ssa.MakeClosure
	stores := 0
	for _, b := range parent.Blocks {
		for _, in := range b.Instrs {
			if st, ok := in.(*ssa.Store); ok && st.Addr == ssa.Value(cell) {
				stores++
				if m, ok := st.Val.(*ssa.MakeClosure); ok {
					sib = m
				}
			}
		}
	}
	if stores != 1 || sib == nil {
		return nil, nil
	}
	sfn, ok := sib.Fn.(*ssa.Function)
	if !ok {
		return nil, nil
	}
	var sbind []*Value
	for _, sb := range sib.Bindings {
		found := false
		for k, mine := range mk.Bindings {
			if mine == sb && k < len(bind) {
				sbind = append(sbind, bind[k])
				found = true
				break
			}
		}
		if !found {
			return nil, nil
		}
	}
	return sfn, sbind
}

// singleClosureStore: the closure literal stored into the local cell, when that store is the only store to the cell in
// fn, it dominates the call instruction, and no function literal nested in fn stores through a captured variable of the
// cell's type (so no closure can re-assign the cell).
func singleClosureStore(fn *ssa.Function, cell *ssa.Alloc, call ssa.CallInstruction) *ssa.MakeClosure {
	var mk *ssa.MakeClosure
	var storeInstr ssa.Instruction
	stores := 0
	for _, b := range fn.Blocks {
		for _, in := range b.Instrs {
			if st, ok := in.(*ssa.Store); ok && st.Addr == ssa.Value(cell) {
				stores++
				if m, ok := st.Val.(*ssa.MakeClosure); ok {
					mk = m
					storeInstr = in
				}
			}
		}
	}
	if stores != 1 || mk == nil {
		return nil
	}
	// every other use of the cell must be a load or a capture by a closure literal (the address goes nowhere else)
	for _, ref := range *cell.Referrers() {
		switch r := ref.(type) {
		case *ssa.Store:
			if r.Addr != ssa.Value(cell) {
				return nil
			}
		case *ssa.UnOp:
			if r.Op != token.MUL {
				return nil
			}
		case *ssa.MakeClosure, *ssa.DebugRef:
		default:
			return nil
		}
	}
	var nested func(f *ssa.Function) bool
	nested = func(f *ssa.Function) bool {
		for _, a := range f.AnonFuncs {
			for _, b := range a.Blocks {
				for _, in := range b.Instrs {
					if st, ok := in.(*ssa.Store); ok {
						if fv, isFV := st.Addr.(*ssa.FreeVar); isFV && types.Identical(fv.Type(), cell.Type()) {
							return false
						}
					}
				}
			}
			if !nested(a) {
				return false
			}
		}
		return true
	}
	if !nested(fn) {
		return nil
	}
	sb, cb := storeInstr.Block(), call.Block()
	if sb == cb {
		si, ci := -1, -1
		for i, in := range sb.Instrs {
			if in == storeInstr {
				si = i
			}
			if in == ssa.Instruction(call) {
				ci = i
			}
		}
		if si < 0 || ci < 0 || si >= ci {
			return nil
		}
		return mk
	}
	if !sb.Dominates(cb) {
		return nil
	}
	return mk
}
