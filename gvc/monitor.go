package main

// Monitors (lock discipline as contracts). For a struct with `monitor T.mu / protects f... /
// invariant I(self)`:
//   mu.Lock():   obligation "not already held by this thread" (self-deadlock), then the protected
//                fields become arbitrary (another goroutine may have changed them while the lock
//                was free) and the invariants are assumed;
//   mu.Unlock(): obligation "held", obligation: every invariant holds; the lock is released;
//   &s.f for a protected field f: obligation "held".
// This is the classical monitor-invariant rule; it yields data-race freedom for the protected
// fields (every access happens with the lock held; Go's mutex gives happens-before - assumed)
// and the invariant at every point where the lock is free, for any number of goroutines.
// Termination (and therefore deadlock through blocking) is not covered.

import (
	"go/token"
	"go/types"

	"golang.org/x/tools/go/ssa"
)

func structName(t types.Type) string {
	if p, ok := t.(*types.Pointer); ok {
		t = p.Elem()
	}
	if n, ok := t.(*types.Named); ok {
		return n.Obj().Name()
	}
	return ""
}

func (x *Exec) heldKey(m *Monitor) string { return "G:held/" + m.Struct + "." + m.Mutex }

func (x *Exec) heldTerm(st *State, m *Monitor, base *Term) *Term {
	return Select(x.heapArr(st, x.heldKey(m), ArraySort(RefSort, BoolSort)), base)
}

func (x *Exec) setHeld(st *State, m *Monitor, base *Term, v *Term) {
	k := x.heldKey(m)
	arr := x.heapArr(st, k, ArraySort(RefSort, BoolSort))
	st.heap[k] = Store(arr, base, v)
	x.noteWrite(k, base)
}

// monitorOf: p points to a mutex field of a struct with a monitor declaration.
func (x *Exec) monitorOf(p *Value) (*Monitor, *Pointer) {
	if p == nil || p.K != KPtr || p.P.Cell != nil || p.P.Elem || len(p.P.Path) != 1 || p.P.ObjT == nil {
		return nil, nil
	}
	st, ok := under(p.P.ObjT).(*types.Struct)
	if !ok || p.P.Path[0].Field < 0 || p.P.Path[0].Field >= st.NumFields() {
		return nil, nil
	}
	m := x.db.Monitors[structName(p.P.ObjT)+"."+st.Field(p.P.Path[0].Field).Name()]
	if m == nil {
		return nil, nil
	}
	return m, &Pointer{Base: p.P.Base, ObjT: p.P.ObjT, Global: p.P.Global}
}

func (x *Exec) monitorInvs(fr *Frame, st *State, m *Monitor, self *Pointer, f func(c Clause, t *Term)) {
	sv := &Value{K: KPtr, T: types.NewPointer(self.ObjT), P: self}
	for _, c := range m.Invs {
		env := &SpecEnv{x: x, vars: map[string]*Value{"self": sv}, cur: st, old: st, pkg: x.pkgOfFn(fr.fn)}
		t := x.guardedEval(func() *Term { return env.evalBool(c.E) }, &Contract{Name: "monitor " + m.Struct + "." + m.Mutex}, c)
		f(c, t)
	}
}

// monitorCall handles (*sync.Mutex).Lock / Unlock on a monitored mutex. Returns true when handled.
func (x *Exec) monitorCall(fr *Frame, st *State, fn *ssa.Function, args []*Value, pos token.Pos) bool {
	name := fn.String()
	if name != "(*sync.Mutex).Lock" && name != "(*sync.Mutex).Unlock" {
		return false
	}
	if len(args) != 1 {
		return false
	}
	m, self := x.monitorOf(args[0])
	if m == nil {
		return false
	}
	x.trusted["sync.Mutex gives mutual exclusion and happens-before between Unlock and the next Lock (monitor rule for "+m.Struct+"."+m.Mutex+")"] = true
	stT, _ := under(self.ObjT).(*types.Struct)
	if name == "(*sync.Mutex).Lock" {
		x.oblige(fr, st, "lock", "", "not-already-held:"+m.Struct+"."+m.Mutex, Not(x.heldTerm(st, m, self.Base)), pos, "Lock() while this thread already holds the lock (self-deadlock)")
		x.setHeld(st, m, self.Base, True)
		for _, pf := range m.Protects {
			for i := 0; i < stT.NumFields(); i++ {
				if stT.Field(i).Name() != pf {
					continue
				}
				fp := &Pointer{Base: self.Base, ObjT: self.ObjT, Global: self.Global, Path: []PathElem{{Field: i}}}
				nv := x.freshValue("locked_"+pf, stT.Field(i).Type(), st.guard)
				x.boundRefs(nv, x.allocNow())
				x.store(st, fp, nv)
			}
		}
		x.monitorInvs(fr, st, m, self, func(c Clause, t *Term) { x.assume(st, t) })
		return true
	}
	x.oblige(fr, st, "lock", "", "held-at-unlock:"+m.Struct+"."+m.Mutex, x.heldTerm(st, m, self.Base), pos, "Unlock() of a mutex this thread does not hold")
	x.monitorInvs(fr, st, m, self, func(c Clause, t *Term) {
		x.oblige(fr, st, "monitor", "", c.Label, t, pos, c.Src)
	})
	x.setHeld(st, m, self.Base, False)
	return true
}

// guardedFieldAccess: taking the address of a protected field requires the lock.
func (x *Exec) guardedFieldAccess(fr *Frame, st *State, p *Value, objT types.Type, field int, pos token.Pos, in *ssa.FieldAddr) {
	if len(x.db.Monitors) == 0 || p.K != KPtr || p.P.Cell != nil || p.P.Elem || len(p.P.Path) != 0 {
		return
	}
	stT, ok := under(objT).(*types.Struct)
	if !ok {
		return
	}
	if unpublishedAlloc(in) {
		// a field of an object this function has just allocated and not yet handed to anything (the
		// composite literal of a constructor): no other thread can reach it, so no lock is needed yet
		x.trusted["an object is private to the function that allocated it until its address is stored or passed on (composite literals initialise protected fields without the lock)"] = true
		return
	}
	sn := structName(objT)
	for _, m := range x.db.Monitors {
		if m.Struct != sn {
			continue
		}
		for _, pf := range m.Protects {
			if stT.Field(field).Name() == pf {
				x.oblige(fr, st, "lock", "", "guarded-access:"+sn+"."+pf, x.heldTerm(st, m, p.P.Base), pos, "access to "+sn+"."+pf+" without holding "+m.Mutex)
			}
		}
	}
}

// unpublishedAlloc: in addresses a field of an object allocated earlier in the same basic block, and between
// the allocation and in the object's address is used by nothing but field-address computations.
func unpublishedAlloc(in *ssa.FieldAddr) bool {
	if in == nil {
		return false
	}
	al, ok := in.X.(*ssa.Alloc)
	if !ok || al.Block() != in.Block() {
		return false
	}
	seen := false
	for _, i := range in.Block().Instrs {
		if i == ssa.Instruction(al) {
			seen = true
			continue
		}
		if !seen {
			continue
		}
		if i == ssa.Instruction(in) {
			return true
		}
		if _, isFA := i.(*ssa.FieldAddr); isFA {
			continue
		}
		if _, isDbg := i.(*ssa.DebugRef); isDbg {
			continue
		}
		for _, op := range i.Operands(nil) {
			if *op == ssa.Value(al) {
				return false
			}
		}
	}
	return false
}
