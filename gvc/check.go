package main

// gvc check: decide one property on the current tree of /repo.

import (
	"encoding/json"
	"flag"
	"fmt"
	"os"
	"path/filepath"
	"sort"
	"strconv"
	"strings"
	"sync"
	"time"

	"golang.org/x/tools/go/ssa"
)

type KnownFinding struct {
	Property   string `json:"property"`
	Obligation string `json:"obligation"`
	Status     string `json:"status"` // known | fixed
	What       string `json:"what"`
	Witness    string `json:"witness,omitempty"`
	Except     string `json:"except,omitempty"` // spec expression over the function's inputs describing the known failing class
	Commit     string `json:"commit,omitempty"`
	Note       string `json:"note,omitempty"`
}

type Ledger struct {
	Property    string   `json:"property"`
	Obligations []string `json:"obligations"`
	Functions   []string `json:"functions"`
	// Fit: the shape of each function its contract's internal annotations were written for (loop kinds by
	// ordinal, inlined helpers without contract entry, what the contract's identifiers name)
	Fit map[string]*FitInfo `json:"fit,omitempty"`
}

type sample struct {
	Obligation string  `json:"obligation"`
	Kind       string  `json:"kind"`
	Answer     string  `json:"answer"`
	Solver     string  `json:"solver"`
	TimeS      float64 `json:"time_s"`
	VCBytes    int     `json:"vc_bytes"`
	Source     string  `json:"source,omitempty"`
}

type funcReport struct {
	Function    string   `json:"function"`
	Obligations int      `json:"obligations"`
	Discharged  int      `json:"discharged"`
	Status      string   `json:"status"` // verified | failed | outside-subset | contract-error | missing
	Error       string   `json:"error,omitempty"`
	ExecS       float64  `json:"symbolic_execution_s"`
	Failed      []string `json:"failed,omitempty"`
}

type checkCtx struct {
	prop             string
	tier             string
	seed             int
	w                *World
	workDir          string
	timeoutS         int
	known            []KnownFinding
	ledger           *Ledger
	fits             map[string]*FitInfo // shape of each function checked in this run
	misfit           map[string]string   // function -> why its contract's internal annotations no longer fit
	misfitPrinted    map[string]bool
	verifDir         string
	samples          []sample
	funcs            []funcReport
	trusted          map[string]bool
	unmod            map[string]bool
	notes            map[string]bool
	undecided        []string
	viol             []string
	knownSeen        []string
	byBackend        map[string]int
	solverS          float64
	nObl             int
	nDis             int
	vacuity          []string
	bounded          []map[string]interface{}
	missing          []string
	extraAssumptions []string
	knownObls        []string
	crossChecked     int      // thorough: obligations discharged by at least two solvers independently
	singleSolver     []string // thorough: obligations only one solver could discharge
}

func cmdCheck(args []string) {
	fs := flag.NewFlagSet("check", flag.ExitOnError)
	repo := fs.String("repo", "/repo", "")
	verif := fs.String("verif", "/verif", "")
	prop := fs.String("prop", "", "property id")
	tier := fs.String("tier", "quick", "")
	writeLedger := fs.Bool("write-ledger", false, "record the obligations discharged on this tree")
	fs.Parse(args)
	t0 := time.Now()
	seed, _ := strconv.Atoi(os.Getenv("VERIF_SEED"))
	if t := os.Getenv("VERIF_TIER"); t != "" && *tier == "" {
		*tier = t
	}
	cc := &checkCtx{prop: *prop, tier: *tier, seed: seed, verifDir: *verif, trusted: map[string]bool{}, unmod: map[string]bool{}, notes: map[string]bool{}, byBackend: map[string]int{}}
	cc.timeoutS = 10
	if *tier == "thorough" {
		cc.timeoutS = 60
	}
	if os.Getenv("GVC_FAST") != "" {
		cc.timeoutS = 3 // diagnostic runs only
	}
	cc.workDir = filepath.Join(*verif, "work", *prop)
	os.RemoveAll(cc.workDir)
	os.MkdirAll(cc.workDir, 0o755)
	w, err := loadWorld(*repo, filepath.Join(*verif, "spec"))
	if err != nil {
		// the tree does not load (does not compile with the contract files): nothing can be decided
		fmt.Fprintf(os.Stderr, "gvc: cannot load %s: %v\n", *repo, err)
		cc.w = nil
		cc.vacuity = append(cc.vacuity, "repository failed to load: "+err.Error())
		cc.writeEvidence(time.Since(t0).Seconds(), "load-error")
		os.Exit(2)
	}
	cc.w = w
	reliesTable = w.db.Relies
	cc.loadKnown()
	cc.loadLedger()

	// functions under contract for this property
	var names []string
	for name, c := range w.db.Contracts {
		if contractServes(c, *prop) {
			names = append(names, name)
		}
	}
	sort.Strings(names)
	for _, name := range names {
		if is := w.insts[name]; len(is) > 0 {
			sort.Slice(is, func(i, j int) bool { return is[i].String() < is[j].String() })
			for _, f := range is {
				cc.verifyFn(name+"["+shortInst(f)+"]", f)
			}
			continue
		}
		cc.verifyOne(name)
	}
	cc.runTables()
	cc.runLemmas()
	cc.runBounded()
	// ledger obligations that disappeared
	if cc.ledger != nil {
		have := map[string]bool{}
		for _, s := range cc.samples {
			have[s.Obligation] = true
		}
		for _, o := range cc.ledger.Obligations {
			if !have[o] {
				cc.missing = append(cc.missing, o)
				// A labelled contract clause (calls / ensures / monitor / lock) that produced an
				// obligation on the pinned tree and produces none now was satisfied vacuously: the
				// call site or exit it speaks about no longer exists. Auto-numbered safety
				// obligations are not treated this way (their names shift with harmless edits).
				if stableObligationName(o) && cc.knownFor(o) == nil && cc.misfit[oblFunc(o)] != "" {
					cc.undecided = append(cc.undecided, o+" (no longer generated; annotations no longer fit: "+cc.misfit[oblFunc(o)]+")")
				} else if stableObligationName(o) && cc.knownFor(o) == nil {
					path := cc.writeReplay(o, "obligation discharged on the pinned tree is no longer generated (the call site / exit it constrains has disappeared)", &SolverAnswer{Status: "not-generated"}, nil)
					cc.viol = append(cc.viol, fmt.Sprintf("VIOLATION property=%s replay=%s no-failing-input-found", cc.prop, path))
				}
			}
		}
	}
	if *writeLedger {
		// the ledger is the statement "all of this was discharged on the pinned tree": refuse to
		// write it when a function under contract could not be processed or an obligation failed
		bad := 0
		for _, f := range cc.funcs {
			if f.Status != "verified" && !strings.HasPrefix(f.Status, "trusted") {
				fmt.Fprintf(os.Stderr, "gvc: not writing the ledger: %s is %s (%s)\n", f.Function, f.Status, trunc(f.Error, 200))
				bad++
			}
		}
		if bad == 0 || os.Getenv("GVC_LEDGER_FORCE") != "" {
			cc.saveLedger()
		} else {
			defer os.Exit(4)
		}
	}
	status := "ok"
	if len(cc.viol) > 0 {
		status = "violation"
	}
	cc.writeEvidence(time.Since(t0).Seconds(), status)
	for _, k := range cc.knownSeen {
		fmt.Println(k)
	}
	for _, v := range cc.viol {
		fmt.Println(v)
	}
	fmt.Printf("gvc: property %s tier %s: %d obligations, %d discharged, %d undecided, %d violations, %d known findings seen (%.1fs)\n",
		*prop, *tier, cc.nObl, cc.nDis, len(cc.undecided), len(cc.viol), len(cc.knownSeen), time.Since(t0).Seconds())
	if len(cc.viol) > 0 {
		os.Exit(1)
	}
	if cc.nObl == 0 {
		fmt.Println("gvc: no obligations were generated — vacuous check")
		os.Exit(3)
	}
}

func (cc *checkCtx) loadKnown() {
	data, err := os.ReadFile(filepath.Join(cc.verifDir, "known_findings.json"))
	if err != nil {
		return
	}
	var all []KnownFinding
	if err := json.Unmarshal(data, &all); err != nil {
		fmt.Fprintf(os.Stderr, "gvc: known_findings.json: %v\n", err)
		os.Exit(2)
	}
	for _, k := range all {
		// a finding recorded for the property that owns a mechanism is the same finding when the obligation is
		// re-checked on behalf of a property that relies on that mechanism ("relies" directive)
		if k.Property == cc.prop || (cc.w != nil && contains(cc.w.db.Relies[k.Property], cc.prop)) {
			cc.known = append(cc.known, k)
		}
	}
}

func (cc *checkCtx) loadLedger() {
	data, err := os.ReadFile(filepath.Join(cc.verifDir, "ledger", cc.prop+".json"))
	if err != nil {
		return
	}
	var l Ledger
	if json.Unmarshal(data, &l) == nil {
		cc.ledger = &l
	}
}

func (cc *checkCtx) saveLedger() {
	l := Ledger{Property: cc.prop}
	for _, s := range cc.samples {
		if s.Answer == "unsat" {
			l.Obligations = append(l.Obligations, s.Obligation)
		}
	}
	for _, f := range cc.funcs {
		if f.Status == "verified" {
			l.Functions = append(l.Functions, f.Function)
		}
	}
	sort.Strings(l.Obligations)
	l.Fit = map[string]*FitInfo{}
	for _, f := range cc.funcs {
		if f.Status == "verified" && cc.fits[f.Function] != nil {
			l.Fit[f.Function] = cc.fits[f.Function]
		}
	}
	os.MkdirAll(filepath.Join(cc.verifDir, "ledger"), 0o755)
	data, _ := json.MarshalIndent(l, "", " ")
	os.WriteFile(filepath.Join(cc.verifDir, "ledger", cc.prop+".json"), data, 0o644)
}

func (cc *checkCtx) inLedger(name string) bool {
	if cc.ledger == nil {
		return false
	}
	for _, o := range cc.ledger.Obligations {
		if o == name {
			return true
		}
	}
	return false
}

func (cc *checkCtx) fnInLedger(name string) bool {
	if cc.ledger == nil {
		return false
	}
	for _, o := range cc.ledger.Functions {
		if o == name {
			return true
		}
	}
	return false
}

func (cc *checkCtx) knownFor(obl string) *KnownFinding {
	for i := range cc.known {
		if cc.known[i].Obligation == obl && cc.known[i].Status == "known" {
			return &cc.known[i]
		}
	}
	return nil
}

func shortInst(f *ssa.Function) string {
	n := f.Name()
	if i := strings.Index(n, "["); i >= 0 {
		n = n[i+1:]
		n = strings.TrimSuffix(n, "]")
	}
	if i := strings.LastIndex(n, "."); i >= 0 {
		n = "*" + n[i+1:]
	}
	return n
}

func (cc *checkCtx) verifyOne(name string) {
	cc.verifyFn(name, cc.w.funcs[name])
}

func (cc *checkCtx) verifyFn(name string, fn *ssa.Function) {
	w := cc.w
	rep := funcReport{Function: name}
	if fn == nil {
		rep.Status = "missing"
		rep.Error = "no function with this name in the current tree"
		cc.funcs = append(cc.funcs, rep)
		if cc.fnInLedger(name) {
			cc.vacuity = append(cc.vacuity, "function under contract disappeared: "+name)
		}
		return
	}
	x := w.newExec()
	c := x.contractFor(fn)
	if c != nil && c.Trusted {
		rep.Status = "trusted (assumed, body not verified)"
		cc.funcs = append(cc.funcs, rep)
		cc.trusted["assumed contract of "+name+" (marked trusted; its body is not verified against it)"] = true
		return
	}
	t0 := time.Now()
	res := x.VerifyFunction(fn, c)
	if _, isSpec := res.Err.(specErr); isSpec && loopShapeMismatch(res.Err.Error()) && cc.fnInLedger(name) {
		// A loop clause of the contract no longer fits any loop (a loop was removed or is of another
		// kind now). The function verified on the pinned tree, so the clauses that cannot be placed are
		// dropped and everything else - above all the postconditions they helped to prove - is checked
		// without them: the verdict then rests on the obligations stated over the function's interface.
		fmt.Fprintf(os.Stderr, "gvc: %s: %v; re-checking without the loop clauses that no longer fit\n", name, res.Err)
		cc.notes[name+": loop clauses that no longer fit the loop structure were dropped ("+trunc(res.Err.Error(), 160)+")"] = true
		x = w.newExec()
		x.lenientLoops = true
		res = x.VerifyFunction(fn, c)
	}
	rep.ExecS = time.Since(t0).Seconds()
	for _, t := range res.Trusted {
		cc.trusted[t] = true
	}
	for _, u := range res.Unmodelled {
		cc.unmod[name+": "+u] = true
	}
	for _, n := range res.Notes {
		cc.notes[n] = true
	}
	if cc.fits == nil {
		cc.fits = map[string]*FitInfo{}
		cc.misfit = map[string]string{}
	}
	cc.fits[name] = res.Fit
	if cc.ledger != nil && cc.ledger.Fit != nil {
		if why := fitDiff(cc.ledger.Fit[name], res.Fit); why != "" {
			cc.misfit[name] = why
			cc.misfit[res.Func] = why
			cc.notes[name+": the contract's internal annotations no longer fit the code ("+why+"); obligations of this function that fail without a counterexample are reported as undecided"] = true
		}
	}
	if res.Err != nil {
		rep.Status = "outside-subset"
		if _, ok := res.Err.(specErr); ok {
			rep.Status = "contract-error"
		}
		rep.Error = res.Err.Error()
		cc.funcs = append(cc.funcs, rep)
		fmt.Fprintf(os.Stderr, "gvc: %s: %v\n", name, res.Err)
		if cc.fnInLedger(name) {
			// It verified on the pinned tree and can no longer be processed: its contract names
			// something that no longer exists (a renamed local) or its body left the supported subset
			// (loop clauses that no longer fit a loop were already dropped and the rest re-checked, above). No obligation could be generated, so nothing failed: this is
			// reported as undecided, never as a violation (a harmless refactoring does this too).
			if rep.Status == "contract-error" && strings.Contains(res.Err.Error(), "no field ") {
				// the contract speaks about a struct field that no longer exists: a change of the data
				// the property is stated over, not a renamed temporary - reported
				path := cc.writeReplay(name+"#verifiable", "a struct field the contract is stated over no longer exists: "+trunc(res.Err.Error(), 300), &SolverAnswer{Status: "contract-error"}, nil)
				cc.viol = append(cc.viol, fmt.Sprintf("VIOLATION property=%s replay=%s no-failing-input-found", cc.prop, path))
				return
			}
			cc.undecided = append(cc.undecided, name+"#verifiable ("+rep.Status+": "+trunc(res.Err.Error(), 160)+")")
			fmt.Printf("UNDECIDED property=%s function=%s reason=%s\n", cc.prop, name, rep.Status)
		}
		return
	}
	// vacuity: preconditions satisfiable, exit reachable
	cc.vacuityChecks(x, fn, c, res, name)
	// keep only the obligations attributed to this property
	var mine []*Obligation
	for _, o := range res.Obligations {
		if contains(o.Props, cc.prop) {
			mine = append(mine, o)
		}
	}
	res.Obligations = mine
	noRetry := map[string]bool{}
	if os.Getenv("GVC_FAST") != "" {
		for _, o := range res.Obligations {
			noRetry[o.Name] = true
		}
	}
	for _, k := range cc.known {
		if k.Status == "known" {
			noRetry[k.Obligation] = true
		}
	}
	rs := discharge(x, res, cc.workDir, cc.timeoutS, noRetry)
	rep.Obligations = len(rs)
	if cc.tier == "thorough" {
		cc.crossCheck(rs)
	}
	for _, r := range rs {
		cc.nObl++
		cc.solverS += r.Ans.Time
		s := sample{Obligation: r.O.Name, Kind: r.O.Kind, Answer: r.Ans.Status, Solver: r.Ans.Solver, TimeS: round3(r.Ans.Time), VCBytes: len(r.Script), Source: trunc(r.O.Src, 200)}
		cc.samples = append(cc.samples, s)
		if r.Ans.Status == "unsat" {
			cc.nDis++
			rep.Discharged++
			cc.byBackend[r.Ans.Solver]++
			continue
		}
		rep.Failed = append(rep.Failed, r.O.Name)
		if kf := cc.knownFor(r.O.Name); kf != nil && kf.Except == "" {
			// a recorded known finding is reported separately and not counted among the claimed obligations
			cc.nObl--
			rep.Obligations--
			cc.knownObls = append(cc.knownObls, r.O.Name)
		}
		cc.handleFailure(x, fn, c, r)
	}
	if rep.Discharged == rep.Obligations {
		rep.Status = "verified"
	} else {
		rep.Status = "failed"
	}
	cc.funcs = append(cc.funcs, rep)
}

func round3(f float64) float64 { return float64(int(f*1000+0.5)) / 1000 }

func (cc *checkCtx) vacuityChecks(x *Exec, fn *ssa.Function, c *Contract, res *VerifyResult, name string) {
	if c == nil || len(c.Requires) == 0 {
		return
	}
	// requires ∧ type invariants must be satisfiable
	nreq := 0
	for i, f := range res.Facts {
		_ = f
		nreq = i
		if i > 64 {
			break
		}
	}
	_ = nreq
	script := x.renderScript(append(append([]*Term{}, x.perm...), x.entryFacts...), True, nil)
	ans := runSolvers(script, cc.workDir, name+"#vacuity.requires", 5, nil)
	if ans.Status == "unsat" {
		cc.vacuity = append(cc.vacuity, "contradictory precondition: "+name)
		cc.viol = append(cc.viol, fmt.Sprintf("VIOLATION property=%s replay=%s no-failing-input-found", cc.prop, cc.writeReplay(name+"#vacuity.requires", "contradictory precondition (vacuous contract)", ans, nil)))
	}
}

// handleFailure classifies an obligation that was not discharged.
func (cc *checkCtx) handleFailure(x *Exec, fn *ssa.Function, c *Contract, r *OblResult) {
	if kf := cc.knownFor(r.O.Name); kf != nil {
		// the known witness class is excluded; anything that still fails is a new violation
		if kf.Except != "" {
			ex, err := x.evalInputExpr(fn, c, kf.Except)
			if err != nil {
				fmt.Fprintf(os.Stderr, "gvc: known finding %s: except clause: %v\n", kf.Obligation, err)
			} else {
				script := x.buildScript(r.O, append([]*Term{Not(ex)}, x.lateFacts...), nil)
				ans := runSolvers(script, cc.workDir, r.O.Name+"#except", cc.timeoutS, nil)
				if ans.Status == "unsat" {
					cc.knownSeen = append(cc.knownSeen, fmt.Sprintf("KNOWN-FINDING: property=%s %s (%s)", cc.prop, kf.What, r.O.Name))
					return
				}
				r2 := &OblResult{O: r.O, Ans: ans, Script: script}
				cc.reportFailure(x, r2, cc.inLedger(r.O.Name+"#except"))
				cc.knownSeen = append(cc.knownSeen, fmt.Sprintf("KNOWN-FINDING: property=%s %s (%s)", cc.prop, kf.What, r.O.Name))
				return
			}
		}
		cc.knownSeen = append(cc.knownSeen, fmt.Sprintf("KNOWN-FINDING: property=%s %s (%s)", cc.prop, kf.What, r.O.Name))
		return
	}
	cc.reportFailure(x, r, cc.inLedger(r.O.Name))
}

func (cc *checkCtx) reportFailure(x *Exec, r *OblResult, inLedger bool) {
	why := cc.misfit[oblFunc(r.O.Name)]
	demote := func() {
		// The function's loops, helpers or the variables its contract names have changed shape since the
		// contract was proved: the loop clauses and local names in it may speak about something else now, so
		// a proof that no longer goes through says nothing yet. Only a counterexample that replays on the
		// real code is believed for such a function.
		cc.undecided = append(cc.undecided, r.O.Name+" ("+r.Ans.Status+"; annotations no longer fit: "+why+")")
		if !cc.misfitPrinted[oblFunc(r.O.Name)] {
			if cc.misfitPrinted == nil {
				cc.misfitPrinted = map[string]bool{}
			}
			cc.misfitPrinted[oblFunc(r.O.Name)] = true
			fmt.Printf("UNDECIDED property=%s function=%s reason=annotations-no-longer-fit (%s)\n", cc.prop, oblFunc(r.O.Name), why)
		}
	}
	switch {
	case r.Ans.Status == "sat":
		path, reproduced := cc.replay(x, r)
		if reproduced {
			cc.viol = append(cc.viol, fmt.Sprintf("VIOLATION property=%s replay=%s", cc.prop, path))
		} else if why != "" {
			demote()
		} else {
			cc.viol = append(cc.viol, fmt.Sprintf("VIOLATION property=%s replay=%s no-failing-input-found", cc.prop, path))
		}
	case why != "" && (inLedger || (contractKinds[r.O.Kind] && cc.fnInLedger(oblFunc(r.O.Name)))):
		demote()
	case inLedger:
		path := cc.writeReplay(r.O.Name, "obligation discharged on the pinned tree is no longer provable ("+r.Ans.Status+")", r.Ans, r.O)
		cc.viol = append(cc.viol, fmt.Sprintf("VIOLATION property=%s replay=%s no-failing-input-found", cc.prop, path))
	case contractKinds[r.O.Kind] && cc.fnInLedger(oblFunc(r.O.Name)):
		// A new obligation (its name is not in the ledger) that stems from a clause of the
		// function's contract - a frame location the function did not write before, an invariant at
		// a new back edge, a second call site of a constrained callee - in a function that was
		// verified on the pinned tree: the contract held there and cannot be shown to hold now.
		path := cc.writeReplay(r.O.Name, "a contract obligation that did not arise on the pinned tree (new write / call site / back edge in a function verified there) cannot be discharged ("+r.Ans.Status+")", r.Ans, r.O)
		cc.viol = append(cc.viol, fmt.Sprintf("VIOLATION property=%s replay=%s no-failing-input-found", cc.prop, path))
	default:
		cc.undecided = append(cc.undecided, r.O.Name+" ("+r.Ans.Status+")")
	}
}

// contractKinds: obligations generated from clauses of a contract (as opposed to the automatic
// no-panic obligations, whose number and names change with any edit).
var contractKinds = map[string]bool{"ensures": true, "frame": true, "calls": true, "inv.entry": true, "inv.preserved": true, "lock": true, "monitor": true, "sync": true, "decreases": true}

func (cc *checkCtx) writeReplay(obl, why string, ans *SolverAnswer, o *Obligation) string {
	dir := filepath.Join(cc.verifDir, "replays", cc.prop)
	os.MkdirAll(dir, 0o755)
	path := filepath.Join(dir, sanitize(obl)+".json")
	m := map[string]interface{}{
		"property":      cc.prop,
		"obligation":    obl,
		"reason":        why,
		"solver":        ans.Solver,
		"solver_status": ans.Status,
		"solver_output": trunc(ans.Output, 4000),
		"answers":       ans.Answers,
	}
	if o != nil {
		m["function"] = o.Func
		m["kind"] = o.Kind
		m["source"] = o.Src
		m["position"] = o.Pos
	}
	if ans.Model != nil {
		m["model"] = ans.Model
	}
	data, _ := json.MarshalIndent(m, "", " ")
	os.WriteFile(path, data, 0o644)
	return path
}

func (cc *checkCtx) writeEvidence(wall float64, status string) {
	keys := func(m map[string]bool) []string {
		var ks []string
		for k := range m {
			ks = append(ks, k)
		}
		sort.Strings(ks)
		return ks
	}
	var fnames []string
	for _, f := range cc.funcs {
		fnames = append(fnames, f.Function)
	}
	samples := cc.samples
	if len(samples) > 60 {
		// keep failures and a spread of discharged obligations
		var keep []sample
		for i, s := range samples {
			if s.Answer != "unsat" || i%(len(samples)/40+1) == 0 {
				keep = append(keep, s)
			}
		}
		samples = keep
	}
	level := "proof"
	cov := map[string]interface{}{
		"obligations":                           cc.nObl,
		"discharged":                            cc.nDis,
		"checker_cmd":                           fmt.Sprintf("/verif/bin/gvc check --prop %s --tier %s  (go/ssa weakest-precondition style VC generation; z3 4.8.12, z3 5.1.0 (z3-new), cvc5 1.0 raced per obligation)", cc.prop, cc.tier),
		"trusted_base":                          append(keys(cc.trusted), cc.extraAssumptions...),
		"functions_under_contract":              cc.funcs,
		"by_backend":                            cc.byBackend,
		"solver_time_s":                         round3(cc.solverS),
		"samples":                               samples,
		"unmodelled_calls":                      keys(cc.unmod),
		"notes":                                 keys(cc.notes),
		"undecided":                             cc.undecided,
		"cross_checked_by_two_solvers":          cc.crossChecked,
		"discharged_by_one_solver_only":         cc.singleSolver,
		"known_findings_seen":                   cc.knownSeen,
		"known_finding_obligations_not_counted": cc.knownObls,
		"vacuity":                               cc.vacuity,
		"bounded":                               cc.bounded,
		"missing_obligations":                   cc.missing,
		"status":                                status,
		"extraction_drops": []string{
			"select statements and conditional defers other than a single one put a function outside the subset; go statements, channels and WaitGroups are covered only by ghost counters with local non-blocking obligations (no schedule is explored)",
			"float64 is modelled as mathematical Real",
			"bodies of functions outside /repo are never entered (assumed contracts or havoc)",
			"logging calls are no-ops",
			"append yields a fresh backing array (no capacity aliasing)",
			"machine integers are mathematical integers with type-range facts; unsigned arithmetic wraps, signed overflow is not checked",
			"termination is not proved",
		},
	}
	if len(samples) == 0 {
		cov["samples"] = []string{"(no obligations generated)"}
	}
	ev := map[string]interface{}{
		"property_id": cc.prop,
		"tier":        cc.tier,
		"seed":        cc.seed,
		"level":       level,
		"coverage":    cov,
		"assumptions": append(keys(cc.trusted), cc.extraAssumptions...),
		"wall_s":      round3(wall),
		"violations":  len(cc.viol),
	}
	os.MkdirAll(filepath.Join(cc.verifDir, "evidence"), 0o755)
	data, _ := json.MarshalIndent(ev, "", " ")
	os.WriteFile(filepath.Join(cc.verifDir, "evidence", cc.prop+".json"), data, 0o644)
}

func (cc *checkCtx) runTables()  {}
func (cc *checkCtx) runLemmas()  {}
func (cc *checkCtx) runBounded() {}

// evalInputExpr evaluates a spec expression over the entry values of fn's parameters.
func (x *Exec) evalInputExpr(fn *ssa.Function, c *Contract, src string) (t *Term, err error) {
	e, perr := ParseExpr(src)
	if perr != nil {
		return nil, perr
	}
	defer func() {
		if r := recover(); r != nil {
			if se, ok := r.(specErr); ok {
				err = se
				return
			}
			panic(r)
		}
	}()
	vars := map[string]*Value{}
	for i, p := range fn.Params {
		vars[p.Name()] = x.rootArgs[i]
	}
	entry := &State{guard: True, heap: map[string]*Term{}, cells: map[*Cell]*Value{}}
	env := &SpecEnv{x: x, vars: vars, cur: entry, old: entry, pkg: x.pkgOfFn(fn)}
	n := len(x.facts)
	t = env.evalBool(e)
	x.lateFacts = append(x.lateFacts, x.facts[n:]...)
	return t, nil
}

var _ = strings.Join

// reliesTable: SpecDB.Relies of the loaded world (owner property -> properties that rely on it)
var reliesTable map[string][]string

func contractServes(c *Contract, prop string) bool {
	if contains(c.Props, prop) || contains(c.Props, prop+":safety") || contains(c.FrameProps, prop) {
		return true
	}
	has := func(cl Clause) bool {
		if strings.HasPrefix(cl.Label, prop+".") {
			return true
		}
		for owner, rel := range reliesTable {
			if contains(rel, prop) && strings.HasPrefix(cl.Label, owner+".") {
				return true
			}
		}
		return false
	}
	for _, cl := range c.Ensures {
		if has(cl) {
			return true
		}
	}
	for _, cc := range c.Calls {
		if has(cc.C) {
			return true
		}
	}
	for _, ls := range c.Loops {
		for _, cl := range ls {
			if has(cl) {
				return true
			}
		}
	}
	return false
}

// stableObligationName: names derived from contract labels (not from instruction ordinals).
func stableObligationName(o string) bool {
	if strings.Contains(o, "#retry") || strings.Contains(o, "#except") {
		return false
	}
	i := strings.Index(o, "#")
	if i < 0 {
		return false
	}
	rest := o[i+1:]
	if strings.Count(rest, "#") > 0 {
		return false // second, third ... occurrence: ordinal-dependent
	}
	return strings.HasPrefix(rest, "calls:")
}

// crossCheck (thorough tier): every discharged obligation is put to the other two solvers on
// their own (in parallel, 10 s each). A second independent `unsat` counts as a cross-check, a
// `sat` from any solver overrides the first answer; obligations only one solver could discharge
// are named in the evidence.
func (cc *checkCtx) crossCheck(rs []*OblResult) {
	var wg sync.WaitGroup
	var mu sync.Mutex
	sem := make(chan struct{}, 5)
	for _, r := range rs {
		if r.Ans == nil || r.Ans.Status != "unsat" || r.Ans.Solver == "trivial" || r.Script == "" {
			continue
		}
		wg.Add(1)
		go func(r *OblResult) {
			defer wg.Done()
			sem <- struct{}{}
			defer func() { <-sem }()
			confirmed := 1
			var t float64
			var override *SolverAnswer
			for _, sv := range solvers {
				if sv.name == r.Ans.Solver {
					continue
				}
				a2 := runSolvers(r.Script, cc.workDir, r.O.Name+"#x-"+sv.name, 10, []string{sv.name})
				t += a2.Time
				if a2.Status == "unsat" {
					confirmed++
				} else if a2.Status == "sat" {
					override = a2
					break
				}
			}
			mu.Lock()
			defer mu.Unlock()
			cc.solverS += t
			switch {
			case override != nil:
				r.Ans = override
			case confirmed >= 2:
				cc.crossChecked++
			default:
				cc.singleSolver = append(cc.singleSolver, r.O.Name)
			}
		}(r)
	}
	wg.Wait()
	sort.Strings(cc.singleSolver)
}

// oblFunc: the function an obligation name belongs to (the part before the first '#').
func oblFunc(name string) string {
	if i := strings.Index(name, "#"); i >= 0 {
		return name[:i]
	}
	return name
}

// loopShapeMismatch recognises contract errors that mean "this loop clause was written for a loop that is
// no longer there in that form".
func loopShapeMismatch(msg string) bool {
	for _, pat := range []string{"is not a map range", "has no range index", "): no loop ", ": no loop ", "is not being executed here", "is not a string range"} {
		if strings.Contains(msg, pat) {
			return true
		}
	}
	return false
}

// fitDiff says why a function no longer has the shape its contract's internal annotations were written for
// ("" when it still has): a loop was added or changed kind (loop clauses are keyed by ordinal), a helper without
// any contract entry is now inlined into it (code the clauses speak about may have moved there), or an identifier
// of the contract names another kind of variable (a local was renamed and the name now denotes a parameter).
// A loop that merely disappeared is not a misfit by itself: the clauses written for it are dropped and the
// postconditions decide (a removed check must not go unnoticed).
func fitDiff(old, cur *FitInfo) string {
	if old == nil || cur == nil {
		return ""
	}
	var why []string
	oldH := map[string]bool{}
	for _, h := range old.Helpers {
		oldH[h] = true
	}
	for _, h := range cur.Helpers {
		if !oldH[h] {
			why = append(why, "new helper without contract: "+h)
		}
	}
	if len(cur.Loops) > len(old.Loops) {
		why = append(why, fmt.Sprintf("%d loops where the contract was written for %d", len(cur.Loops), len(old.Loops)))
	} else if len(cur.Loops) == len(old.Loops) {
		for i := range cur.Loops {
			if cur.Loops[i] != old.Loops[i] {
				why = append(why, fmt.Sprintf("loop %d is %s, was %s", i+1, cur.Loops[i], old.Loops[i]))
			}
		}
	}
	var names []string
	for n := range old.Idents {
		names = append(names, n)
	}
	sort.Strings(names)
	for _, n := range names {
		if k, ok := cur.Idents[n]; ok && k != old.Idents[n] {
			why = append(why, fmt.Sprintf("%s names a %s, was %s", n, k, old.Idents[n]))
		}
	}
	return strings.Join(why, "; ")
}
