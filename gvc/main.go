package main

import (
	"encoding/json"
	"flag"
	"fmt"
	"go/token"
	"go/types"
	"math/big"
	"os"
	"os/exec"
	"path/filepath"
	"sort"
	"strconv"
	"strings"
	"sync"
	"time"

	"golang.org/x/tools/go/packages"
	"golang.org/x/tools/go/ssa"
	"golang.org/x/tools/go/ssa/ssautil"
)

type World struct {
	prog           *ssa.Program
	pkgs           []*packages.Package
	spkgs          []*ssa.Package
	db             *SpecDB
	repo           string
	funcs          map[string]*ssa.Function   // by contract key
	insts          map[string][]*ssa.Function // generic function (by contract key of the origin) -> instantiations
	repoP          map[string]bool
	mutatedGlobals map[string]bool
	escapedGlobals map[string]bool // address used by something other than a load (outside init)
	allFuncs       map[string]*ssa.Function
}

func loadWorld(repo, specDir string) (*World, error) {
	cfg := &packages.Config{Mode: packages.LoadAllSyntax, Dir: repo, BuildFlags: []string{"-tags=verif"},
		Env: append(os.Environ(), "GOFLAGS=-mod=readonly", "GOPROXY=off", "GOSUMDB=off", "GOTOOLCHAIN=local")}
	pkgs, err := packages.Load(cfg, "./...")
	if err != nil {
		return nil, err
	}
	var errs []string
	for _, p := range pkgs {
		for _, e := range p.Errors {
			errs = append(errs, e.Error())
		}
	}
	if len(errs) > 0 {
		return nil, fmt.Errorf("package errors: %s", strings.Join(errs, "; "))
	}
	prog, spkgs := ssautil.AllPackages(pkgs, ssa.InstantiateGenerics|ssa.GlobalDebug)
	prog.Build()
	db, err := LoadAllSpecs(specDir, repo)
	if err != nil {
		return nil, err
	}
	w := &World{prog: prog, pkgs: pkgs, spkgs: spkgs, db: db, repo: repo, funcs: map[string]*ssa.Function{}, repoP: map[string]bool{}, insts: map[string][]*ssa.Function{}}
	for _, p := range pkgs {
		w.repoP[p.PkgPath] = true
	}
	w.mutatedGlobals = map[string]bool{}
	w.escapedGlobals = map[string]bool{}
	w.allFuncs = map[string]*ssa.Function{}
	for fn := range ssautil.AllFunctions(prog) {
		w.allFuncs[fn.String()] = fn
		if fn.Name() != "init" || fn.Parent() != nil {
			for _, b := range fn.Blocks {
				for _, in := range b.Instrs {
					if st, ok := in.(*ssa.Store); ok {
						if g, ok := st.Addr.(*ssa.Global); ok && g.Pkg != nil {
							w.mutatedGlobals[g.Pkg.Pkg.Name()+"."+g.Name()] = true
						}
					}
					// any use of a package variable's address other than reading it lets it be written indirectly
					if u, isLoad := in.(*ssa.UnOp); !(isLoad && u.Op == token.MUL) {
						for _, op := range in.Operands(nil) {
							if g, ok := (*op).(*ssa.Global); ok && g.Pkg != nil {
								w.escapedGlobals[g.Pkg.Pkg.Name()+"."+g.Name()] = true
							}
						}
					}
				}
			}
		}
	}
	for fn := range ssautil.AllFunctions(prog) {
		p := fn.Pkg
		if p == nil && fn.Origin() != nil {
			p = fn.Origin().Pkg
		}
		if p == nil && fn.Parent() != nil {
			for f := fn.Parent(); f != nil; f = f.Parent() {
				if f.Pkg != nil {
					p = f.Pkg
					break
				}
			}
		}
		if p == nil || !w.repoP[p.Pkg.Path()] {
			continue
		}
		if fn.Synthetic != "" && fn.Origin() == nil {
			if fn.Name() == "init" && fn.Parent() == nil && fn.Pkg != nil {
				w.funcs[fn.Pkg.Pkg.Name()+".init"] = fn
			}
			continue
		}
		for _, k := range contractKeys(fn) {
			if _, dup := w.funcs[k]; !dup {
				w.funcs[k] = fn
			}
		}
		if fn.Origin() != nil && fn.Origin() != fn {
			for _, k := range contractKeys(fn.Origin()) {
				w.insts[k] = append(w.insts[k], fn)
			}
		}
	}
	return w, nil
}

func (w *World) newExec() *Exec {
	x := NewExec(w.prog, w.db, w.prog.Fset)
	x.repoPkgs = w.repoP
	x.allFuncs = w.allFuncs
	x.globals = map[string]func(*State) *Value{}
	x.nonnilGlobals = map[string]bool{}
	for name, val := range w.db.Globals {
		name, val := name, val
		if w.mutatedGlobals[name] {
			fmt.Fprintf(os.Stderr, "gvc: package variable %s is assigned outside init; its declared initial value is ignored\n", name)
			continue
		}
		if val == "nonnil" && w.escapedGlobals[name] {
			fmt.Fprintf(os.Stderr, "gvc: the address of package variable %s is used outside init; its declared non-nil value is ignored\n", name)
			continue
		}
		if val == "nonnil" {
			// handled where the variable is read (instr.go): the loaded value is assumed non-nil
			x.nonnilGlobals[name] = true
			continue
		}
		x.globals[name] = func(st *State) *Value {
			x.trusted["package variable "+name+" holds its initial value "+val+" (no assignment to it exists outside init — checked syntactically on every run)"] = true
			if strings.HasPrefix(val, "\"") {
				u, _ := strconv.Unquote(val)
				return scalar(tStr, x.strLit(u))
			}
			n, _ := new(big.Int).SetString(val, 0)
			return scalar(tInt, BigLit(n))
		}
	}
	x.loadSpecAxioms()
	return x
}

func (x *Exec) loadSpecAxioms() {
	env := &SpecEnv{x: x, vars: map[string]*Value{}, cur: &State{guard: True, heap: map[string]*Term{}, cells: map[*Cell]*Value{}}}
	for _, a := range x.db.Axioms {
		func() {
			defer func() {
				if r := recover(); r != nil {
					if se, ok := r.(specErr); ok {
						fmt.Fprintf(os.Stderr, "axiom %q: %s\n", a.Src, se.msg)
						os.Exit(2)
					}
					panic(r)
				}
			}()
			x.specAxioms = append(x.specAxioms, env.evalBool(a.E))
		}()
	}
	x.facts = nil
}

type OblResult struct {
	O      *Obligation
	Ans    *SolverAnswer
	Script string
}

// discharge runs the solvers on all obligations of a verification result.
func discharge(x *Exec, res *VerifyResult, workDir string, timeoutS int, noRetry map[string]bool) []*OblResult {
	out := make([]*OblResult, len(res.Obligations))
	var wg sync.WaitGroup
	sem := make(chan struct{}, 6)
	for i, o := range res.Obligations {
		r := &OblResult{O: o}
		out[i] = r
		if o.Goal.IsTrue() || o.Guard.IsFalse() {
			r.Ans = &SolverAnswer{Status: "unsat", Solver: "trivial"}
			continue
		}
		r.Script = x.buildScript(o, nil, nil)
		wg.Add(1)
		go func(r *OblResult) {
			defer wg.Done()
			sem <- struct{}{}
			defer func() { <-sem }()
			r.Ans = runSolvers(r.Script, workDir, r.O.Name, timeoutS, nil)
		}(r)
	}
	wg.Wait()
	// second chance for obligations that timed out or came back unknown under load: one at a
	// time, with a three times larger budget (a slow proof must not turn into an alarm)
	for _, r := range out {
		if r.Ans != nil && !noRetry[r.O.Name] && (r.Ans.Status == "timeout" || r.Ans.Status == "unknown" || r.Ans.Status == "error") {
			first := r.Ans
			r.Ans = runSolvers(r.Script, workDir, r.O.Name+"#retry", timeoutS*3, nil)
			r.Ans.Time += first.Time
		}
	}
	return out
}

func main() {
	if len(os.Args) < 2 {
		fmt.Fprintln(os.Stderr, "usage: gvc verify|check|list ...")
		os.Exit(2)
	}
	switch os.Args[1] {
	case "verify":
		cmdVerify(os.Args[2:])
	case "check":
		cmdCheck(os.Args[2:])
	case "list":
		cmdList(os.Args[2:])
	case "sweep":
		cmdSweep(os.Args[2:])
	case "replay":
		cmdReplay(os.Args[2:])
	default:
		fmt.Fprintln(os.Stderr, "unknown command")
		os.Exit(2)
	}
}

func cmdList(args []string) {
	fs := flag.NewFlagSet("list", flag.ExitOnError)
	repo := fs.String("repo", "/repo", "")
	spec := fs.String("spec", "/verif/spec", "")
	fs.Parse(args)
	w, err := loadWorld(*repo, *spec)
	if err != nil {
		fmt.Fprintln(os.Stderr, err)
		os.Exit(2)
	}
	var ks []string
	for k := range w.funcs {
		ks = append(ks, k)
	}
	sort.Strings(ks)
	for _, k := range ks {
		fmt.Println(k)
	}
}

func cmdVerify(args []string) {
	fs := flag.NewFlagSet("verify", flag.ExitOnError)
	repo := fs.String("repo", "/repo", "")
	spec := fs.String("spec", "/verif/spec", "")
	fn := fs.String("func", "", "function (contract key)")
	timeout := fs.Int("timeout", 10, "")
	dump := fs.Bool("dump", false, "print scripts of failing obligations")
	work := fs.String("work", "/verif/work/debug", "")
	fs.Parse(args)
	w, err := loadWorld(*repo, *spec)
	if err != nil {
		fmt.Fprintln(os.Stderr, err)
		os.Exit(2)
	}
	os.RemoveAll(*work)
	for _, name := range strings.Split(*fn, ",") {
		f := w.funcs[name]

		if f == nil {
			fmt.Fprintf(os.Stderr, "no function %s\n", name)
			os.Exit(2)
		}
		fl := []*ssa.Function{f}
		if is := w.insts[name]; len(is) > 0 {
			fl = is
			sort.Slice(fl, func(i, j int) bool { return fl[i].String() < fl[j].String() })
		}
		for _, f := range fl {
			x := w.newExec()
			c := x.contractFor(f)
			if os.Getenv("GVC_DUMPSSA") != "" {
				f.WriteTo(os.Stderr)
			}
			t0 := time.Now()
			res := x.VerifyFunction(f, c)
			fmt.Printf("== %s: %d obligations (symbolic execution %.2fs)\n", name, len(res.Obligations), time.Since(t0).Seconds())
			if res.Err != nil {
				fmt.Printf("   ERROR: %v\n", res.Err)
			}
			rs := discharge(x, res, *work, *timeout, nil)
			for _, r := range rs {
				fmt.Printf("   %-8s %-8s %6.2fs  %s\n", r.Ans.Status, r.Ans.Solver, r.Ans.Time, r.O.Name)
				if r.Ans.Status != "unsat" && *dump {
					fmt.Printf("      src: %s  pos: %s\n      answers: %v\n", r.O.Src, r.O.Pos, r.Ans.Answers)
					if r.Ans.Status == "error" {
						fmt.Println(r.Ans.Output)
					}
				}
			}
			for _, n := range res.Unmodelled {
				fmt.Printf("   unmodelled: %s\n", n)
			}
			for _, n := range res.Trusted {
				fmt.Printf("   trusted: %s\n", n)
			}
			for _, n := range res.Notes {
				fmt.Printf("   note: %s\n", n)
			}
		}
	}
}

// cmdSweep: zero-annotation safety sweep. Every function of the repository without a contract
// is executed with an empty contract (arbitrary well-typed arguments, non-nil pointer receiver)
// and its safety obligations (nil, index, slice, nilmap, assert, panic, division, callee
// preconditions) are sent to the solvers with a short timeout. One line per function. Triage tool.
func cmdSweep(args []string) {
	fs := flag.NewFlagSet("sweep", flag.ExitOnError)
	repo := fs.String("repo", "/repo", "")
	spec := fs.String("spec", "/verif/spec", "")
	timeout := fs.Int("timeout", 2, "")
	match := fs.String("match", "", "only functions whose name contains this")
	all := fs.Bool("all", false, "include functions that already have a contract")
	work := fs.String("work", "/verif/work/sweep", "")
	shard := fs.Int("shard", 0, "")
	shards := fs.Int("shards", 1, "")
	fs.Parse(args)
	w, err := loadWorld(*repo, *spec)
	if err != nil {
		fmt.Fprintln(os.Stderr, err)
		os.Exit(2)
	}
	*work = fmt.Sprintf("%s%d", *work, *shard)
	os.RemoveAll(*work)
	seen := map[*ssa.Function]bool{}
	var ks []string
	for k, f := range w.funcs {
		if seen[f] {
			continue
		}
		seen[f] = true
		ks = append(ks, k)
	}
	sort.Strings(ks)
	lines := make([]string, len(ks))
	var wg sync.WaitGroup
	sem := make(chan struct{}, 1)
	for i, k := range ks {
		f := w.funcs[k]
		if i%*shards != *shard {
			continue
		}
		if f.Blocks == nil || (*match != "" && !strings.Contains(k, *match)) {
			continue
		}
		if strings.Contains(k, "$") || strings.HasSuffix(k, ".init") {
			continue
		}
		wg.Add(1)
		go func(i int, k string, f *ssa.Function) {
			defer wg.Done()
			sem <- struct{}{}
			defer func() { <-sem }()
			defer func() {
				if r := recover(); r != nil {
					lines[i] = fmt.Sprintf("%-60s ENGINE-PANIC %v", k, trunc(fmt.Sprint(r), 120))
				}
			}()
			x := w.newExec()
			c := x.contractFor(f)
			if c != nil && !*all {
				return
			}
			if c == nil {
				c = &Contract{Kind: "func", Name: k}
				if recv := f.Signature.Recv(); recv != nil && recv.Name() != "" && recv.Name() != "_" {
					if _, isPtr := recv.Type().(*types.Pointer); isPtr {
						if cl, err := parseClause(recv.Name() + " != nil"); err == nil {
							c.Requires = append(c.Requires, cl)
						}
					}
				}
			}
			res := x.VerifyFunction(f, c)
			if res.Err != nil {
				lines[i] = fmt.Sprintf("%-60s ERROR %v", k, trunc(res.Err.Error(), 100))
				return
			}
			no := map[string]bool{}
			for _, o := range res.Obligations {
				no[o.Name] = true
			}
			rs := discharge(x, res, *work, *timeout, no)
			bad := []string{}
			for _, r := range rs {
				if r.Ans.Status != "unsat" {
					bad = append(bad, strings.TrimPrefix(r.O.Name, funcDisplayName(f)))
				}
			}
			um := ""
			if len(res.Unmodelled) > 0 {
				um = fmt.Sprintf(" unmodelled=%d", len(res.Unmodelled))
			}
			recvName := ""
			if recv := f.Signature.Recv(); recv != nil {
				if _, isPtr := recv.Type().(*types.Pointer); isPtr {
					recvName = recv.Name()
				}
			}
			lines[i] = fmt.Sprintf("%-60s obl=%d open=%d%s pkg=%s key=%s recv=%s %s", k, len(rs), len(bad), um, f.Pkg.Pkg.Name(), funcDisplayName(f), recvName, trunc(strings.Join(bad, " | "), 300))
		}(i, k, f)
	}
	wg.Wait()
	for _, l := range lines {
		if l != "" {
			fmt.Println(l)
		}
	}
}

// cmdReplay re-runs the Go test stored in a replay file against the current /repo tree.
func cmdReplay(args []string) {
	fs := flag.NewFlagSet("replay", flag.ExitOnError)
	file := fs.String("file", "", "replay file")
	repo := fs.String("repo", "/repo", "")
	fs.Parse(args)
	data, err := os.ReadFile(*file)
	if err != nil {
		fmt.Fprintln(os.Stderr, err)
		os.Exit(2)
	}
	var m map[string]interface{}
	if err := json.Unmarshal(data, &m); err != nil {
		fmt.Fprintln(os.Stderr, err)
		os.Exit(2)
	}
	fmt.Printf("property:   %v\nobligation: %v\nreason:     %v\nsolver:     %v (%v)\n", m["property"], m["obligation"], m["reason"], m["solver"], m["solver_status"])
	src, _ := m["go_test"].(string)
	if src == "" {
		fmt.Println("no executable counterexample in this replay file (the solver produced no model, or the inputs are outside the replayable types); the failed obligation and the solver output are above / in the file")
		os.Exit(0)
	}
	pos, _ := m["position"].(string)
	pkgDir := *repo
	if i := strings.Index(pos, ":"); i > 0 {
		pkgDir = filepath.Dir(pos[:i])
	}
	dir, _ := os.MkdirTemp("", "gvc-replay-")
	defer os.RemoveAll(dir)
	tf := filepath.Join(dir, "zz_gvc_replay_test.go")
	os.WriteFile(tf, []byte(src), 0o644)
	ov, _ := json.Marshal(map[string]map[string]string{"Replace": {filepath.Join(pkgDir, "zz_gvc_replay_test.go"): tf}})
	of := filepath.Join(dir, "overlay.json")
	os.WriteFile(of, ov, 0o644)
	cmd := exec.Command("go", "test", "-overlay", of, "-vet=off", "-count=1", "-timeout", "60s", "-run", "^TestGvcReplay$", "-v", ".")
	cmd.Dir = pkgDir
	cmd.Env = append(os.Environ(), "GOFLAGS=-mod=readonly", "GOPROXY=off", "GOSUMDB=off", "GOTOOLCHAIN=local")
	out, _ := cmd.CombinedOutput()
	fmt.Printf("inputs:     %v\n%s", m["inputs"], out)
	if strings.Contains(string(out), "GVC-REPLAY-PANIC") {
		os.Exit(1)
	}
}
