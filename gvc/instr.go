package main

import (
	"fmt"
	"go/token"
	"go/types"
	"math/big"
	"strings"

	"golang.org/x/tools/go/ssa"
)

func (x *Exec) execInstr(fr *Frame, b *ssa.BasicBlock, st *State, in ssa.Instruction) {
	switch in := in.(type) {
	case *ssa.DebugRef:
		return
	case *ssa.Alloc:
		et := in.Type().(*types.Pointer).Elem()
		if _, isArr := under(et).(*types.Array); isArr {
			// arrays behind pointers live in the slice-backing heap
			at := under(et).(*types.Array)
			ref := x.freshRef(st, "arr_"+in.Comment)
			p := &Pointer{Base: ref, ObjT: at.Elem(), Elem: true, Idx: IntLit(0)}
			fr.regs[in] = &Value{K: KPtr, T: in.Type(), P: p}
			// zero-initialise
			for _, l := range leavesOf(at.Elem()) {
				key, stored, _ := x.leafKey(p, l)
				arr := x.heapArr(st, key, stored)
				st.heap[key] = Store(arr, ref, x.zeroOfSort(ArraySort(IntSort, l.Sort)))
				x.noteWrite(key, ref)
			}
			return
		}
		if !in.Heap {
			x.cellID++
			c := &Cell{Name: in.Comment, T: et, ID: x.cellID}
			st.cells[c] = x.zeroValue(et)
			x.cellsW[c] = true
			fr.regs[in] = &Value{K: KPtr, T: in.Type(), P: &Pointer{Cell: c}}
			return
		}
		ref := x.freshRef(st, "new_"+in.Comment)
		p := &Pointer{Base: ref, ObjT: et}
		x.store(st, p, x.zeroValue(et))
		fr.regs[in] = &Value{K: KPtr, T: in.Type(), P: p}
		if nt, ok := et.(*types.Named); ok && nt.Obj().Pkg() != nil && nt.Obj().Pkg().Path() == "sync" && nt.Obj().Name() == "WaitGroup" {
			// a new WaitGroup expects nothing and nothing has signalled it (ghost state, concurrency.go)
			x.ghostSet(st, gWgAdd, IntSort, ref, IntLit(0))
			x.ghostSet(st, gWgSpawn, IntSort, ref, IntLit(0))
			x.ghostSet(st, gWgDone, IntSort, ref, IntLit(0))
		}
	case *ssa.UnOp:
		fr.regs[in] = x.unop(fr, st, in)
	case *ssa.BinOp:
		fr.regs[in] = x.binop(fr, st, in, in.Op, x.val(fr, in.X), x.val(fr, in.Y), in.Pos())
	case *ssa.Store:
		p := x.val(fr, in.Addr)
		x.checkNonNil(fr, st, p, in.Pos(), "store")
		v := x.coerce(x.val(fr, in.Val), in.Addr.Type().(*types.Pointer).Elem())
		if v.K == KSlice && p.P.Cell == nil && len(p.P.Path) == 0 && x.zeroOffBases != nil && x.zeroOffBases[p.P.Base.String()] {
			x.oblige(fr, st, "ensures", "", "captured-slice-stays-at-offset-0", Eq(v.Off, IntLit(0)), in.Pos(), "zerooffsets (captured slice variable)")
		}
		x.store(st, p.P, v)
	case *ssa.FieldAddr:
		p := x.val(fr, in.X)
		x.checkNonNil(fr, st, p, in.Pos(), "field "+fieldName(in.X.Type().(*types.Pointer).Elem(), in.Field))
		x.guardedFieldAccess(fr, st, p, in.X.Type().(*types.Pointer).Elem(), in.Field, in.Pos(), in)
		np := *p.P
		np.Path = append(append([]PathElem(nil), p.P.Path...), PathElem{Field: in.Field})
		if np.Cell == nil && np.ObjT == nil {
			np.ObjT = in.X.Type().(*types.Pointer).Elem()
		}
		fr.regs[in] = &Value{K: KPtr, T: in.Type(), P: &np}
	case *ssa.Field:
		v := x.val(fr, in.X)
		fr.regs[in] = v.Fields[in.Field]
	case *ssa.IndexAddr:
		fr.regs[in] = x.indexAddr(fr, st, in)
	case *ssa.Index:
		fr.regs[in] = x.index(fr, st, in)
	case *ssa.Slice:
		fr.regs[in] = x.slice(fr, st, in)
	case *ssa.Lookup:
		fr.regs[in] = x.lookup(fr, st, in)
	case *ssa.MapUpdate:
		m := x.val(fr, in.Map)
		x.safetyOblige(fr, st, "nilmap", "assignment to entry in nil map", Neq(m.Term, x.null()), in.Pos())
		x.mapSet(st, in.Map.Type(), m.Term, x.val(fr, in.Key), x.coerce(x.val(fr, in.Value), under(in.Map.Type()).(*types.Map).Elem()))
	case *ssa.MakeMap:
		ref := x.freshRef(st, "map")
		t := in.Type()
		mi := x.mapInfoOf(t)
		pk := "MP:" + mi.key
		srt := ArraySort(RefSort, curried(mi.kLeaves, BoolSort))
		parr := x.heapArr(st, pk, srt)
		st.heap[pk] = Store(parr, ref, constCurried(mi.kLeaves, BoolSort, False))
		x.noteWrite(pk, ref)
		lk := "ML:" + mi.key
		larr := x.heapArr(st, lk, ArraySort(RefSort, IntSort))
		st.heap[lk] = Store(larr, ref, IntLit(0))
		x.noteWrite(lk, ref)
		fr.regs[in] = scalar(t, ref)
	case *ssa.MakeSlice:
		n := x.val(fr, in.Len).Term
		x.safetyOblige(fr, st, "makeslice", "len out of range", Ge(n, IntLit(0)), in.Pos())
		ref := x.freshRef(st, "slice")
		et := under(in.Type()).(*types.Slice).Elem()
		p := &Pointer{Base: ref, ObjT: et, Elem: true, Idx: IntLit(0)}
		for _, l := range leavesOf(et) {
			key, stored, _ := x.leafKey(p, l)
			arr := x.heapArr(st, key, stored)
			st.heap[key] = Store(arr, ref, x.zeroOfSort(ArraySort(IntSort, l.Sort)))
			x.noteWrite(key, ref)
		}
		fr.regs[in] = &Value{K: KSlice, T: in.Type(), Ref: ref, Off: IntLit(0), Len: n}
	case *ssa.MakeInterface:
		fr.regs[in] = x.makeInterface(st, x.val(fr, in.X), in.X.Type(), in.Type())
	case *ssa.MakeClosure:
		fn := in.Fn.(*ssa.Function)
		var bind []*Value
		for _, bnd := range in.Bindings {
			bind = append(bind, x.val(fr, bnd))
		}
		ref := x.ctx.Fresh("closure_"+fn.Name(), RefSort)
		x.facts = append(x.facts, Neq(ref, x.null()))
		v := &Value{K: KFunc, T: in.Type(), Fn: fn, Bind: bind, Term: ref}
		x.closures[ref.Name] = v
		fr.regs[in] = v
	case *ssa.ChangeType:
		v := x.val(fr, in.X)
		fr.regs[in] = x.retype(v, in.Type())
	case *ssa.ChangeInterface:
		v := x.val(fr, in.X)
		nv := *v
		nv.T = in.Type()
		fr.regs[in] = &nv
	case *ssa.Convert:
		fr.regs[in] = x.convert(fr, st, in)
	case *ssa.TypeAssert:
		fr.regs[in] = x.typeAssert(fr, st, in)
	case *ssa.Extract:
		fr.regs[in] = x.val(fr, in.Tuple).Fields[in.Index]
	case *ssa.Call:
		r := x.call(fr, st, in, in.Pos())
		if r != nil {
			fr.regs[in] = r
		}
	case *ssa.Defer:
		conditional := false
		if b != fr.fn.Blocks[0] {
			for _, ob := range fr.fn.Blocks {
				if len(ob.Instrs) > 0 {
					if _, isRet := ob.Instrs[len(ob.Instrs)-1].(*ssa.Return); isRet && !b.Dominates(ob) {
						conditional = true
					}
				}
			}
		}
		if !conditional {
			fr.defers = append(fr.defers, in)
			break
		}
		// a defer statement that some returns do not pass: a ghost flag records, per path,
		// whether it was executed; the deferred call runs at function exit under that flag.
		// Only the simple shape (a single such defer, no others) is supported.
		if fr.condDefer != nil && fr.condDefer != in {
			failf("more than one conditional defer")
		}
		if len(fr.defers) > 0 {
			failf("conditional defer mixed with other defers")
		}
		if fr.condDefer == nil {
			x.cellID++
			fr.condDefer = in
			fr.condDeferCell = &Cell{Name: "deferred$" + fr.fn.Name(), T: tBool, ID: x.cellID}
		}
		st.cells[fr.condDeferCell] = scalar(tBool, True)
		x.cellsW[fr.condDeferCell] = true
	case *ssa.RunDefers:
		if fr.condDefer != nil {
			if len(fr.defers) > 0 {
				failf("conditional defer mixed with other defers")
			}
			flag := False
			if v, ok := st.cells[fr.condDeferCell]; ok {
				flag = v.Term
			}
			switch {
			case flag.IsFalse():
			case flag.IsTrue():
				x.call(fr, st, fr.condDefer, fr.condDefer.Pos())
			default:
				s1 := st.clone()
				s1.guard = And(st.guard, flag)
				x.call(fr, s1, fr.condDefer, fr.condDefer.Pos())
				s2 := st.clone()
				s2.guard = And(st.guard, Not(flag))
				m := x.mergeStates([]*State{s1, s2})
				*st = *m
			}
			break
		}
		for i := len(fr.defers) - 1; i >= 0; i-- {
			x.call(fr, st, fr.defers[i], fr.defers[i].Pos())
		}
	case *ssa.Range:
		fr.regs[in] = x.rangeInit(fr, st, in)
	case *ssa.Next:
		fr.regs[in] = x.next(fr, st, in)
	case *ssa.Return:
		var vals []*Value
		res := fr.fn.Signature.Results()
		for i, r := range in.Results {
			vals = append(vals, x.coerce(x.val(fr, r), res.At(i).Type()))
		}
		rs := st.clone()
		fr.rets = append(fr.rets, retInfo{rs, vals})
	case *ssa.Panic:
		x.panicReached(fr, st, in)
	case *ssa.If, *ssa.Jump:
		return
	case *ssa.Go:
		x.goStmt(fr, st, in)
	case *ssa.Send:
		x.chanSend(fr, st, in)
	case *ssa.MakeChan:
		fr.regs[in] = x.makeChan(fr, st, in)
	case *ssa.Select:
		failf("select statement")
	default:
		failf("unsupported instruction %T: %s", in, in)
	}
}

func fieldName(t types.Type, i int) string {
	if s, ok := under(t).(*types.Struct); ok && i < s.NumFields() {
		return s.Field(i).Name()
	}
	return fmt.Sprint(i)
}

func (x *Exec) constCurriedZ(ks []Leaf, v *Sort) *Term {
	return x.zeroOfSort(curried(ks, v))
}

func constCurried(ks []Leaf, v *Sort, val *Term) *Term {
	t := val
	s := v
	for i := len(ks) - 1; i >= 0; i-- {
		s = ArraySort(ks[i].Sort, s)
		t = ConstArray(s, t)
	}
	return t
}

func (x *Exec) freshRef(st *State, prefix string) *Term {
	x.allocN++
	x.allocOff++
	x.freshNames[sanitize(prefix)] = true
	r := x.ctx.Fresh(prefix, RefSort)
	r.Distinct = 2
	x.freshRefs[r.Name] = true
	// allocation identity: fresh objects differ from null, from each other, and from everything
	// that existed at function entry / was produced by an earlier havoc (allocId <= 0 there).
	x.facts = append(x.facts, Neq(r, x.null()), Eq(x.ctx.App("allocId", IntSort, r), x.allocNow()))
	x.useAxioms("alloc")
	return r
}

func (x *Exec) checkNonNil(fr *Frame, st *State, p *Value, pos token.Pos, what string) {
	if p.K != KPtr {
		failf("dereference of non-pointer value")
	}
	if p.P.Cell != nil || p.P.Global != "" {
		return
	}
	if what == "load" || what == "store" {
		if len(p.P.Path) > 0 || p.P.Elem {
			return // already checked where the interior pointer was formed
		}
	}
	if p.P.Base.Op == "const" && (len(p.P.Base.Name) > 4 && (p.P.Base.Name[:4] == "new_" || p.P.Base.Name[:4] == "arr_")) {
		return
	}
	x.safetyOblige(fr, st, "nil", "nil dereference: "+what, Neq(p.P.Base, x.null()), pos)
}

func (x *Exec) retype(v *Value, t types.Type) *Value {
	nv := *v
	nv.T = t
	if v.K == KPtr {
		np := *v.P
		if np.Cell == nil && !np.Elem && len(np.Path) == 0 {
			np.ObjT = t.Underlying().(*types.Pointer).Elem()
		}
		nv.P = &np
	}
	if v.K == KStruct {
		// field types may differ nominally; rebuild from leaves
		ts := leafTerms(v)
		i := 0
		return buildValue(t, func(l Leaf) *Term { r := ts[i]; i++; return r })
	}
	return &nv
}

func (x *Exec) unop(fr *Frame, st *State, in *ssa.UnOp) *Value {
	v := x.val(fr, in.X)
	switch in.Op {
	case token.MUL: // load
		x.checkNonNil(fr, st, v, in.Pos(), "load")
		if v.P.Global != "" {
			if strings.HasSuffix(v.P.Global, ".init$guard") {
				// a package initialiser is verified for its first (and only effective) execution
				return scalar(in.Type(), False)
			}
			if gv := x.globalInit(fr, st, v.P, in.Type()); gv != nil {
				return gv
			}
			if len(v.P.Path) == 0 && x.isNonnilGlobal(v.P.Global) {
				// `global pkg.Var = nonnil`: never assigned outside init (checked syntactically on every run),
				// and the package initialiser's contract proves the value it stores is not nil
				lv := x.load(st, v.P, in.Type())
				x.trusted["package variable "+v.P.Global+" keeps the non-nil value its package initialiser stores (no assignment to it exists outside init - checked syntactically on every run; the initial value is an obligation of the init contract)"] = true
				switch lv.K {
				case KIface:
					x.assume(st, Not(Eq(lv.Tag, IntLit(0))))
				case KPtr:
					x.assume(st, Not(Eq(ptrAsRef(lv.P), x.null())))
				case KScalar:
					if lv.Term.Sort == RefSort {
						x.assume(st, Not(Eq(lv.Term, x.null())))
					}
				}
				return lv
			}
		}
		return x.load(st, v.P, in.Type())
	case token.NOT:
		return scalar(in.Type(), Not(v.Term))
	case token.SUB:
		r := Neg(v.Term)
		return scalar(in.Type(), x.wrapInt(fr, st, r, in.Type(), in.Pos(), "-"+in.X.Name()))
	case token.XOR:
		// ^x == -x-1 for signed; for unsigned max - x
		if b, ok := under(in.Type()).(*types.Basic); ok {
			lo, hi := intRange(b)
			if lo != nil && lo.Sign() == 0 {
				return scalar(in.Type(), Sub(BigLit(hi), v.Term))
			}
		}
		return scalar(in.Type(), Sub(Neg(v.Term), IntLit(1)))
	case token.ARROW:
		return x.chanRecv(fr, st, in)
	}
	failf("unsupported unary op %s", in.Op)
	return nil
}

// wrapInt models Go's wrap-around arithmetic for the result type: for unsigned types the result is
// taken modulo 2^n; for signed types an overflow obligation is emitted (when enabled) and the value kept.
func (x *Exec) wrapInt(fr *Frame, st *State, r *Term, t types.Type, pos token.Pos, what string) *Term {
	b, ok := under(t).(*types.Basic)
	if !ok || b.Info()&types.IsInteger == 0 {
		return r
	}
	lo, hi := intRange(b)
	if lo == nil {
		return r
	}
	if r.Op == "int" && r.Int.Cmp(lo) >= 0 && r.Int.Cmp(hi) <= 0 {
		return r
	}
	if lo.Sign() == 0 {
		mod := new(big.Int).Add(hi, big.NewInt(1))
		return x.name("w", &Term{Op: "mod", Args: []*Term{r, BigLit(mod)}, Sort: IntSort})
	}
	if x.overflowChecks(fr) {
		x.safetyOblige(fr, st, "overflow", what, And(Le(BigLit(lo), r), Le(r, BigLit(hi))), pos)
	} else {
		x.trusted["machine integers are treated as mathematical integers (no signed-overflow obligations)"] = true
	}
	return r
}

func (x *Exec) overflowChecks(fr *Frame) bool { return false }

func pow2(k int64) *big.Int { return new(big.Int).Lsh(big.NewInt(1), uint(k)) }

func idiv(a, b *Term) *Term { return &Term{Op: "div", Args: []*Term{a, b}, Sort: IntSort} }
func imod(a, b *Term) *Term { return &Term{Op: "mod", Args: []*Term{a, b}, Sort: IntSort} }

// bitAnd / bitOr with a constant operand, expressed in linear arithmetic over non-negative values.
func (x *Exec) bitopConst(op token.Token, v *Term, c *big.Int, width int) *Term {
	if c.Sign() < 0 {
		return nil
	}
	switch op {
	case token.AND:
		// low mask 2^k-1
		k := c.BitLen()
		if new(big.Int).Add(c, big.NewInt(1)).Cmp(pow2(int64(k))) == 0 {
			return imod(v, BigLit(pow2(int64(k))))
		}
		// sum of selected bits
		var sum *Term = IntLit(0)
		for i := 0; i < c.BitLen(); i++ {
			if c.Bit(i) == 1 {
				bit := imod(idiv(v, BigLit(pow2(int64(i)))), IntLit(2))
				sum = Add(sum, Mul(BigLit(pow2(int64(i))), bit))
			}
		}
		return sum
	case token.OR:
		r := v
		for i := 0; i < c.BitLen(); i++ {
			if c.Bit(i) == 1 {
				bit := imod(idiv(v, BigLit(pow2(int64(i)))), IntLit(2))
				r = Add(r, Mul(BigLit(pow2(int64(i))), Sub(IntLit(1), bit)))
			}
		}
		return r
	case token.XOR:
		r := v
		for i := 0; i < c.BitLen(); i++ {
			if c.Bit(i) == 1 {
				bit := imod(idiv(v, BigLit(pow2(int64(i)))), IntLit(2))
				// flip: +2^i if bit==0, -2^i if bit==1
				r = Add(r, Mul(BigLit(pow2(int64(i))), Sub(IntLit(1), Mul(IntLit(2), bit))))
			}
		}
		return r
	case token.AND_NOT:
		r := v
		for i := 0; i < c.BitLen(); i++ {
			if c.Bit(i) == 1 {
				bit := imod(idiv(v, BigLit(pow2(int64(i)))), IntLit(2))
				r = Sub(r, Mul(BigLit(pow2(int64(i))), bit))
			}
		}
		return r
	}
	return nil
}

func (x *Exec) binop(fr *Frame, st *State, in ssa.Instruction, op token.Token, a, b *Value, pos token.Pos) *Value {
	var rt types.Type
	if v, ok := in.(ssa.Value); ok {
		rt = v.Type()
	}
	switch op {
	case token.EQL, token.NEQ:
		a2, b2 := x.coerceNilPair(a, b)
		var e *Term
		if a2.K == KIface && b2.K == KIface {
			e = x.ifaceEq(st, a2, b2)
		} else if a2.K == KSlice || b2.K == KSlice {
			// only comparison with nil is legal
			s := a2
			if isNilConst(a) {
				s = b2
			}
			e = Eq(s.Ref, x.null())
		} else if a2.K == KFunc || b2.K == KFunc {
			f := a2
			if isNilConst(a) {
				f = b2
			}
			if f.Term == nil {
				e = False
			} else {
				e = Eq(f.Term, x.null())
			}
		} else {
			e = eqValue(a2, b2)
		}
		if op == token.NEQ {
			e = Not(e)
		}
		return scalar(rt, e)
	}
	if a.K != KScalar || b.K != KScalar {
		failf("binary op %s on composite values", op)
	}
	at, bt := a.Term, b.Term
	if at.Sort.Kind == SStr {
		switch op {
		case token.ADD:
			return scalar(rt, x.sconcat(at, bt))
		case token.LSS, token.LEQ, token.GTR, token.GEQ:
			x.useAxioms("strcmp")
			c := x.ctx.App("strcmp", IntSort, at, bt)
			return scalar(rt, Cmp(cmpOp(op), c, IntLit(0)))
		}
		failf("string op %s", op)
	}
	if at.Sort.Kind == SBool {
		switch op {
		case token.AND, token.LAND:
			return scalar(rt, And(at, bt))
		case token.OR, token.LOR:
			return scalar(rt, Or(at, bt))
		}
	}
	if at.Sort.Kind == SReal || bt.Sort.Kind == SReal {
		switch op {
		case token.LSS, token.LEQ, token.GTR, token.GEQ:
			return scalar(rt, &Term{Op: cmpOp(op), Args: []*Term{at, bt}, Sort: BoolSort})
		case token.ADD:
			return scalar(rt, mk("+", RealSort, at, bt))
		case token.SUB:
			return scalar(rt, mk("-", RealSort, at, bt))
		case token.MUL:
			return scalar(rt, mk("*", RealSort, at, bt))
		case token.QUO:
			return scalar(rt, mk("/", RealSort, at, bt))
		}
		failf("float op %s", op)
	}
	what := op.String()
	switch op {
	case token.LSS, token.LEQ, token.GTR, token.GEQ:
		return scalar(rt, Cmp(cmpOp(op), at, bt))
	case token.ADD:
		return scalar(rt, x.wrapInt(fr, st, Add(at, bt), rt, pos, what))
	case token.SUB:
		return scalar(rt, x.wrapInt(fr, st, Sub(at, bt), rt, pos, what))
	case token.MUL:
		return scalar(rt, x.wrapInt(fr, st, Mul(at, bt), rt, pos, what))
	case token.QUO, token.REM:
		x.safetyOblige(fr, st, "div", "division by zero", Neq(bt, IntLit(0)), pos)
		// Go truncates toward zero; SMT div/mod are Euclidean. Exact for non-negative operands.
		q := x.ctx.Fresh("quo", IntSort)
		r := x.ctx.Fresh("rem", IntSort)
		abs := func(t *Term) *Term { return Ite(Ge(t, IntLit(0)), t, Neg(t)) }
		x.assume(st, Implies(Neq(bt, IntLit(0)), And(
			Eq(at, Add(Mul(q, bt), r)),
			Lt(abs(r), abs(bt)),
			Implies(Ge(at, IntLit(0)), Ge(r, IntLit(0))),
			Implies(Le(at, IntLit(0)), Le(r, IntLit(0))))))
		if bt.Op == "int" && bt.Int.Sign() > 0 {
			// common case: constant positive divisor — linear
			if op == token.QUO {
				return scalar(rt, q)
			}
			return scalar(rt, r)
		}
		if op == token.QUO {
			return scalar(rt, q)
		}
		return scalar(rt, r)
	case token.AND, token.OR, token.XOR, token.AND_NOT:
		if bt.Op == "int" {
			if r := x.bitopConst(op, at, bt.Int, 64); r != nil {
				return scalar(rt, x.name("bit", r))
			}
		}
		if at.Op == "int" && op != token.AND_NOT {
			if r := x.bitopConst(op, bt, at.Int, 64); r != nil {
				return scalar(rt, x.name("bit", r))
			}
		}
		x.note("bitwise " + op.String() + " on two non-constant operands is uninterpreted")
		return scalar(rt, x.ctx.App("bit_"+opName(op), IntSort, at, bt))
	case token.SHL:
		if bt.Op == "int" && bt.Int.IsInt64() && bt.Int.Int64() < 64 {
			return scalar(rt, x.wrapInt(fr, st, Mul(at, BigLit(pow2(bt.Int.Int64()))), rt, pos, what))
		}
		x.note("shift by non-constant amount is uninterpreted")
		return scalar(rt, x.ctx.App("bit_shl", IntSort, at, bt))
	case token.SHR:
		if bt.Op == "int" && bt.Int.IsInt64() && bt.Int.Int64() < 64 {
			// floor division (exact for unsigned and arithmetic shift of signed)
			return scalar(rt, idiv(at, BigLit(pow2(bt.Int.Int64()))))
		}
		x.note("shift by non-constant amount is uninterpreted")
		return scalar(rt, x.ctx.App("bit_shr", IntSort, at, bt))
	}
	failf("unsupported binary op %s", op)
	return nil
}

func opName(op token.Token) string {
	switch op {
	case token.AND:
		return "and"
	case token.OR:
		return "or"
	case token.XOR:
		return "xor"
	case token.AND_NOT:
		return "andnot"
	}
	return "op"
}

func cmpOp(op token.Token) string {
	switch op {
	case token.LSS:
		return "<"
	case token.LEQ:
		return "<="
	case token.GTR:
		return ">"
	case token.GEQ:
		return ">="
	}
	return "?"
}

func isNilConst(v *Value) bool {
	if b, ok := v.T.(*types.Basic); ok && b.Kind() == types.UntypedNil {
		return true
	}
	return false
}

func (x *Exec) coerceNilPair(a, b *Value) (*Value, *Value) {
	if isNilConst(a) && !isNilConst(b) {
		return x.zeroValue(b.T), b
	}
	if isNilConst(b) && !isNilConst(a) {
		return a, x.zeroValue(a.T)
	}
	return a, b
}

// ifaceEq compares two interface values: equal tags and equal payloads (payloads of value types
// are compared through their boxed contents when both are statically known).
func (x *Exec) ifaceEq(st *State, a, b *Value) *Term {
	// comparison with the nil interface: decided by the type tag alone
	if b.Tag.Op == "int" && b.Tag.Int.Sign() == 0 {
		return Eq(a.Tag, IntLit(0))
	}
	if a.Tag.Op == "int" && a.Tag.Int.Sign() == 0 {
		return Eq(b.Tag, IntLit(0))
	}
	if a.Boxed != nil && b.Boxed != nil && types.Identical(a.Boxed.T, b.Boxed.T) {
		return And(Eq(a.Tag, b.Tag), eqValue(a.Boxed, b.Boxed))
	}
	return And(Eq(a.Tag, b.Tag), Eq(a.IRef, b.IRef))
}

func (x *Exec) makeInterface(st *State, v *Value, from, to types.Type) *Value {
	tag := x.typeTag(from)
	switch v.K {
	case KPtr:
		if v.P.Cell == nil && (v.P.Elem || len(v.P.Path) > 0) {
			// interior pointer: the interface payload is a reference determined by (object, path);
			// the Go-side pointer is kept for devirtualisation and for the json model
			args := []*Term{v.P.Base}
			if v.P.Idx != nil {
				args = append(args, v.P.Idx)
			}
			for _, pe := range v.P.Path {
				if pe.Idx != nil {
					args = append(args, pe.Idx)
				}
			}
			ref := x.ctx.App("interior$"+sanitize(canonKey(v.P.ObjT))+"$"+sanitize(pathString(v.P.Path)), RefSort, args...)
			x.facts = append(x.facts, Implies(Neq(v.P.Base, x.null()), Neq(ref, x.null())))
			return &Value{K: KIface, T: to, Tag: tag, IRef: ref, Boxed: v}
		}
		return &Value{K: KIface, T: to, Tag: tag, IRef: ptrAsRef(v.P), Boxed: v}
	}
	if v.K == KScalar && v.Term.Sort.Kind == SRef {
		return &Value{K: KIface, T: to, Tag: tag, IRef: v.Term, Boxed: v}
	}
	// value types are boxed: payload stored in a box heap keyed by the dynamic type
	ref := x.boxRef(st, v, from)
	return &Value{K: KIface, T: to, Tag: tag, IRef: ref, Boxed: v}
}

// boxRef returns a reference standing for the boxed value: an injective function of the leaves,
// so that two boxes are equal iff their contents are.
func (x *Exec) boxRef(st *State, v *Value, t types.Type) *Term {
	if v.K == KFunc && v.Term == nil {
		failf("boxing a builtin")
	}
	ts := leafTerms(v)
	name := "box$" + sanitize(canonKey(t))
	x.useAxioms("box")
	r := x.ctx.App(name, RefSort, ts...)
	// inverse functions give injectivity
	for i, l := range leavesOf(t) {
		inv := x.ctx.App(fmt.Sprintf("unbox$%s$%d", sanitize(canonKey(t)), i), l.Sort, r)
		x.facts = append(x.facts, Eq(inv, ts[i]))
	}
	x.facts = append(x.facts, Neq(r, x.null()))
	return r
}

func (x *Exec) unbox(ref *Term, t types.Type) *Value {
	i := 0
	return buildValue(t, func(l Leaf) *Term {
		r := x.ctx.App(fmt.Sprintf("unbox$%s$%d", sanitize(canonKey(t)), i), l.Sort, ref)
		i++
		return r
	})
}

func (x *Exec) typeAssert(fr *Frame, st *State, in *ssa.TypeAssert) *Value {
	v := x.val(fr, in.X)
	if v.K != KIface {
		failf("type assertion on non-interface")
	}
	var ok *Term
	var res *Value
	if _, toIface := under(in.AssertedType).(*types.Interface); toIface {
		// interface-to-interface: succeeds iff non-nil and dynamic type implements it
		if types.Implements(in.X.Type(), under(in.AssertedType).(*types.Interface)) || types.Identical(in.X.Type(), in.AssertedType) {
			// the static type already guarantees the methods: the assertion only checks for nil
			ok = Neq(v.Tag, IntLit(0))
		} else {
			ok = And(Neq(v.Tag, IntLit(0)), x.implements(v.Tag, in.AssertedType))
		}
		nv := *v
		nv.T = in.AssertedType
		res = &nv
	} else {
		tag := x.typeTag(in.AssertedType)
		ok = Eq(v.Tag, tag)
		if v.Boxed != nil && types.Identical(v.Boxed.T, in.AssertedType) && ok.IsTrue() {
			res = v.Boxed
		} else if _, isPtr := under(in.AssertedType).(*types.Pointer); isPtr {
			res = &Value{K: KPtr, T: in.AssertedType, P: &Pointer{Base: v.IRef, ObjT: under(in.AssertedType).(*types.Pointer).Elem()}}
		} else if ls := leavesOf(in.AssertedType); len(ls) == 1 && ls[0].Sort.Kind == SRef && under(in.AssertedType) != nil && isRefLike(in.AssertedType) {
			res = buildValue(in.AssertedType, func(l Leaf) *Term { return v.IRef })
		} else {
			res = x.unbox(v.IRef, in.AssertedType)
			if v.Boxed != nil && types.Identical(v.Boxed.T, in.AssertedType) {
				res = zipLeaves(v.Boxed, res, func(a, b *Term) *Term { return Ite(ok, a, b) })
			}
		}
	}
	if in.CommaOk {
		zero := x.zeroValue(in.AssertedType)
		var r *Value
		if res.K == KPtr || res.K == KIface {
			r = iteValue(ok, res, zero)
		} else {
			r = zipLeaves(res, zero, func(a, b *Term) *Term { return Ite(ok, a, b) })
		}
		return &Value{K: KTuple, T: in.Type(), Fields: []*Value{r, scalar(types.Typ[types.Bool], ok)}}
	}
	x.safetyOblige(fr, st, "assert", "type assertion to "+shortType(in.AssertedType), ok, in.Pos())
	return res
}

func isRefLike(t types.Type) bool {
	switch under(t).(type) {
	case *types.Map, *types.Chan:
		return true
	}
	return false
}

// implements: uninterpreted predicate over type tags, fixed for tags known statically.
func (x *Exec) implements(tag *Term, iface types.Type) *Term {
	it := under(iface).(*types.Interface)
	if tag.Op == "int" {
		if t, ok := x.tagTypes[int(tag.Int.Int64())]; ok {
			return BoolLit(types.Implements(t, it))
		}
	}
	if it.NumMethods() == 0 {
		return True
	}
	return x.ctx.App("implements$"+sanitize(canonKey(iface)), BoolSort, tag)
}

func (x *Exec) convert(fr *Frame, st *State, in *ssa.Convert) *Value {
	v := x.val(fr, in.X)
	from, to := under(in.X.Type()), under(in.Type())
	fb, fIsB := from.(*types.Basic)
	tb, tIsB := to.(*types.Basic)
	switch {
	case fIsB && tIsB && fb.Info()&types.IsInteger != 0 && tb.Info()&types.IsInteger != 0:
		lo, hi := intRange(tb)
		flo, fhi := intRange(fb)
		if lo != nil && flo != nil && flo.Cmp(lo) >= 0 && fhi.Cmp(hi) <= 0 {
			return scalar(in.Type(), v.Term) // widening
		}
		if v.Term.Op == "int" && v.Term.Int.Cmp(lo) >= 0 && v.Term.Int.Cmp(hi) <= 0 {
			return scalar(in.Type(), v.Term)
		}
		// narrowing / sign change: wraps modulo 2^n
		width := new(big.Int).Add(new(big.Int).Sub(hi, lo), big.NewInt(1))
		m := imod(v.Term, BigLit(width))
		if lo.Sign() < 0 {
			// signed target: if m > hi then m - 2^n
			m = Ite(Gt(m, BigLit(hi)), Sub(m, BigLit(width)), m)
		}
		return scalar(in.Type(), x.name("conv", m))
	case fIsB && tIsB && fb.Info()&types.IsInteger != 0 && tb.Info()&types.IsFloat != 0:
		return scalar(in.Type(), &Term{Op: "to_real", Args: []*Term{v.Term}, Sort: RealSort})
	case fIsB && tIsB && fb.Info()&types.IsFloat != 0 && tb.Info()&types.IsFloat != 0:
		return scalar(in.Type(), v.Term)
	case fIsB && tIsB && fb.Info()&types.IsFloat != 0 && tb.Info()&types.IsInteger != 0:
		// truncation toward zero
		fl := &Term{Op: "to_int", Args: []*Term{v.Term}, Sort: IntSort}
		neg := &Term{Op: "-", Args: []*Term{&Term{Op: "to_int", Args: []*Term{&Term{Op: "-", Args: []*Term{v.Term}, Sort: RealSort}}, Sort: IntSort}}, Sort: IntSort}
		zero := &Term{Op: "int", Int: big.NewInt(0), Sort: RealSort}
		return scalar(in.Type(), Ite(&Term{Op: ">=", Args: []*Term{v.Term, zero}, Sort: BoolSort}, fl, neg))
	case fIsB && fb.Info()&types.IsString != 0 && tIsB && tb.Info()&types.IsString != 0:
		return scalar(in.Type(), v.Term)
	}
	if fIsB && fb.Info()&types.IsString != 0 {
		if ts, ok := to.(*types.Slice); ok {
			if eb, ok := under(ts.Elem()).(*types.Basic); ok && eb.Kind() == types.Uint8 {
				// []byte(s): fresh backing array holding the bytes of s
				ref := x.freshRef(st, "bytes")
				key := "E:uint8/"
				srt := ArraySort(RefSort, ArraySort(IntSort, IntSort))
				arr := x.heapArr(st, key, srt)
				st.heap[key] = Store(arr, ref, x.sbytes(v.Term))
				x.noteWrite(key, ref)
				return &Value{K: KSlice, T: in.Type(), Ref: ref, Off: IntLit(0), Len: x.slen(v.Term)}
			}
			failf("string to %s conversion", in.Type())
		}
	}
	if tIsB && tb.Info()&types.IsString != 0 {
		if v.K == KSlice {
			return scalar(in.Type(), x.bytesToStr(st, v))
		}
		if fIsB && fb.Info()&types.IsInteger != 0 {
			x.useAxioms("str")
			return scalar(in.Type(), x.ctx.App("runeToStr", StrSort, v.Term))
		}
	}
	if _, ok := to.(*types.Pointer); ok {
		return x.retype(v, in.Type())
	}
	failf("unsupported conversion %s -> %s", in.X.Type(), in.Type())
	return nil
}

// bytesToStr gives the string holding the current contents of a byte slice.
func (x *Exec) bytesToStr(st *State, v *Value) *Term {
	arr := Select(x.heapArr(st, "E:uint8/", ArraySort(RefSort, ArraySort(IntSort, IntSort))), v.Ref)
	return x.mkstr(arr, v.Off, v.Len)
}

func (x *Exec) indexAddr(fr *Frame, st *State, in *ssa.IndexAddr) *Value {
	base := x.val(fr, in.X)
	idx := x.val(fr, in.Index).Term
	switch base.K {
	case KSlice:
		x.safetyOblige(fr, st, "index", exprText(in.X)+"["+exprText(in.Index)+"]", And(Le(IntLit(0), idx), Lt(idx, base.Len)), in.Pos())
		et := under(in.X.Type()).(*types.Slice).Elem()
		return &Value{K: KPtr, T: in.Type(), P: &Pointer{Base: base.Ref, ObjT: et, Elem: true, Idx: Add(base.Off, idx)}}
	case KPtr:
		at := under(in.X.Type().(*types.Pointer).Elem()).(*types.Array)
		x.safetyOblige(fr, st, "index", exprText(in.X)+"["+exprText(in.Index)+"]", And(Le(IntLit(0), idx), Lt(idx, IntLit(at.Len()))), in.Pos())
		x.checkNonNil(fr, st, base, in.Pos(), "array index")
		if base.P.Elem && len(base.P.Path) == 0 {
			np := *base.P
			np.Idx = Add(base.P.Idx, idx)
			return &Value{K: KPtr, T: in.Type(), P: &np}
		}
		np := *base.P
		np.Path = append(append([]PathElem(nil), base.P.Path...), PathElem{Field: -1, Idx: idx})
		return &Value{K: KPtr, T: in.Type(), P: &np}
	}
	failf("IndexAddr on %v", base.K)
	return nil
}

func exprText(v ssa.Value) string {
	switch v := v.(type) {
	case *ssa.Const:
		return v.Value.String()
	case *ssa.Parameter:
		return v.Name()
	case *ssa.Phi:
		if v.Comment != "" {
			return v.Comment
		}
	case *ssa.UnOp:
		if v.Op == token.MUL {
			if a, ok := v.X.(*ssa.Alloc); ok && a.Comment != "" {
				return a.Comment
			}
			if f, ok := v.X.(*ssa.FieldAddr); ok {
				return exprText(f.X) + "." + fieldName(f.X.Type().(*types.Pointer).Elem(), f.Field)
			}
			if g, ok := v.X.(*ssa.Global); ok {
				return g.Name()
			}
		}
	case *ssa.BinOp:
		return exprText(v.X) + v.Op.String() + exprText(v.Y)
	case *ssa.Global:
		return v.Name()
	case *ssa.Alloc:
		return v.Comment
	case *ssa.Field:
		return exprText(v.X) + "." + fieldName(v.X.Type(), v.Field)
	case *ssa.Convert:
		return exprText(v.X)
	case *ssa.ChangeType:
		return exprText(v.X)
	case *ssa.Call:
		if f := v.Call.StaticCallee(); f != nil {
			return f.Name() + "(..)"
		}
	}
	if v == nil {
		return ""
	}
	return "_"
}

func (x *Exec) index(fr *Frame, st *State, in *ssa.Index) *Value {
	base := x.val(fr, in.X)
	idx := x.val(fr, in.Index).Term
	if base.K == KScalar && base.Term.Sort.Kind == SStr {
		x.safetyOblige(fr, st, "index", exprText(in.X)+"["+exprText(in.Index)+"]", And(Le(IntLit(0), idx), Lt(idx, x.slen(base.Term))), in.Pos())
		return scalar(in.Type(), x.sat(base.Term, idx))
	}
	if base.K == KArray {
		at := under(in.X.Type()).(*types.Array)
		x.safetyOblige(fr, st, "index", exprText(in.X)+"["+exprText(in.Index)+"]", And(Le(IntLit(0), idx), Lt(idx, IntLit(at.Len()))), in.Pos())
		return mapLeavesT(base.Elems, at.Elem(), func(t *Term) *Term { return Select(t, idx) })
	}
	failf("Index on %v", base.K)
	return nil
}

func (x *Exec) slice(fr *Frame, st *State, in *ssa.Slice) *Value {
	base := x.val(fr, in.X)
	var lo, hi *Term
	if in.Low != nil {
		lo = x.val(fr, in.Low).Term
	} else {
		lo = IntLit(0)
	}
	if in.Max != nil {
		x.note("3-index slice: capacity not modelled")
	}
	text := exprText(in.X) + "[" + exprText(in.Low) + ":" + exprText(in.High) + "]"
	switch {
	case base.K == KScalar && base.Term.Sort.Kind == SStr:
		n := x.slen(base.Term)
		if in.High != nil {
			hi = x.val(fr, in.High).Term
		} else {
			hi = n
		}
		x.safetyOblige(fr, st, "slice", text, And(Le(IntLit(0), lo), Le(lo, hi), Le(hi, n)), in.Pos())
		if lo.Op == "int" && lo.Int.Sign() == 0 && in.High == nil {
			return base
		}
		return scalar(in.Type(), x.substr(base.Term, lo, hi))
	case base.K == KSlice:
		if in.High != nil {
			hi = x.val(fr, in.High).Term
			// slicing up to capacity is legal; capacity is not modelled: require hi <= len (sound, may be incomplete)
			x.safetyOblige(fr, st, "slice", text, And(Le(IntLit(0), lo), Le(lo, hi), Le(hi, x.capOf(st, base))), in.Pos())
		} else {
			hi = base.Len
			x.safetyOblige(fr, st, "slice", text, And(Le(IntLit(0), lo), Le(lo, hi)), in.Pos())
		}
		ref := base.Ref
		return &Value{K: KSlice, T: in.Type(), Ref: ref, Off: Add(base.Off, lo), Len: Sub(hi, lo)}
	case base.K == KPtr:
		at := under(in.X.Type().(*types.Pointer).Elem()).(*types.Array)
		if in.High != nil {
			hi = x.val(fr, in.High).Term
		} else {
			hi = IntLit(at.Len())
		}
		x.safetyOblige(fr, st, "slice", text, And(Le(IntLit(0), lo), Le(lo, hi), Le(hi, IntLit(at.Len()))), in.Pos())
		if !base.P.Elem || len(base.P.Path) != 0 {
			// An array that is a field of a struct (or of a slice element) lives in the struct's leaves, not in the
			// slice-backing heap: the slice is modelled as a COPY of the array's current contents in a fresh backing
			// array. Sound for slices that are only read (comparisons, hashing); a write through such a slice would be
			// lost, so every function that does this is listed, and the copy is marked so that stores through it fail.
			for _, ref := range *in.Referrers() {
				if _, isCall := ref.(*ssa.Call); !isCall {
					if _, dbg := ref.(*ssa.DebugRef); !dbg {
						failf("slicing an array embedded in a struct (the slice is used by something other than a call)")
					}
				}
			}
			x.unmod["slice of an array embedded in a struct, passed to a call: modelled as a read-only copy of its contents (the callee must not write through it)"] = true
			arrV := x.load(st, base.P, at)
			ref := x.freshRef(st, "arrcopy")
			p2 := &Pointer{Base: ref, ObjT: at.Elem(), Elem: true, Idx: IntLit(0)}
			elemLeaves := leavesOf(at.Elem())
			terms := leafTerms(arrV)
			for li, l := range elemLeaves {
				key, stored, _ := x.leafKey(p2, l)
				arr := x.heapArr(st, key, stored)
				st.heap[key] = Store(arr, ref, terms[li])
				x.noteWrite(key, ref)
			}
			return &Value{K: KSlice, T: in.Type(), Ref: ref, Off: lo, Len: Sub(hi, lo)}
		}
		return &Value{K: KSlice, T: in.Type(), Ref: base.P.Base, Off: Add(base.P.Idx, lo), Len: Sub(hi, lo)}
	}
	failf("Slice on %v", base.K)
	return nil
}

// capOf: capacity is an uninterpreted function of (ref, off) that is >= len for values we produce.
func (x *Exec) capOf(st *State, s *Value) *Term {
	c := x.ctx.App("cap$", IntSort, s.Ref, s.Off)
	x.facts = append(x.facts, Ge(c, s.Len))
	return c
}

func (x *Exec) lookup(fr *Frame, st *State, in *ssa.Lookup) *Value {
	m := x.val(fr, in.X)
	k := x.val(fr, in.Index)
	if m.K == KScalar && m.Term.Sort.Kind == SStr {
		idx := k.Term
		x.safetyOblige(fr, st, "index", exprText(in.X)+"["+exprText(in.Index)+"]", And(Le(IntLit(0), idx), Lt(idx, x.slen(m.Term))), in.Pos())
		return scalar(in.Type(), x.sat(m.Term, idx))
	}
	mt := in.X.Type()
	k = x.coerce(k, under(mt).(*types.Map).Key())
	v := x.mapGet(st, mt, m.Term, k)
	if in.CommaOk {
		return &Value{K: KTuple, T: in.Type(), Fields: []*Value{v, scalar(types.Typ[types.Bool], x.mapHas(st, mt, m.Term, k))}}
	}
	return v
}

// ---- range / next ----

func (x *Exec) rangeInit(fr *Frame, st *State, in *ssa.Range) *Value {
	v := x.val(fr, in.X)
	x.cellID++
	it := &iterInfo{}
	if v.K == KScalar && v.Term.Sort.Kind == SStr {
		it.kind = "string"
		it.str = v.Term
		it.cell = &Cell{Name: "striter", T: types.Typ[types.Int], ID: x.cellID}
		st.cells[it.cell] = scalar(types.Typ[types.Int], IntLit(0))
	} else {
		it.kind = "map"
		it.mapT = in.X.Type()
		it.mapR = v.Term
		mi := x.mapInfoOf(it.mapT)
		it.cell = &Cell{Name: "seen", T: nil, ID: x.cellID}
		st.cells[it.cell] = &Value{K: KScalar, Term: constCurried(mi.kLeaves, BoolSort, False)}
		x.cellID++
		it.cnt = &Cell{Name: "itercount", T: types.Typ[types.Int], ID: x.cellID}
		st.cells[it.cnt] = scalar(types.Typ[types.Int], IntLit(0))
		x.cellsW[it.cnt] = true
		it.present0 = x.mapPresent(st, it.mapT, it.mapR).String()
		it.len0 = x.mapLen(st, it.mapT, it.mapR)
	}
	x.cellsW[it.cell] = true
	fr.iters[in] = it
	return &Value{K: KScalar, T: in.Type(), Term: x.null()}
}

func (x *Exec) next(fr *Frame, st *State, in *ssa.Next) *Value {
	it := fr.iters[in.Iter]
	if it == nil {
		failf("next on unknown iterator")
	}
	tt := in.Type().(*types.Tuple)
	okT := x.ctx.Fresh("next_ok", BoolSort)
	if it.kind == "string" {
		pos := st.cells[it.cell].Term
		n := x.slen(it.str)
		x.assume(st, Eq(okT, Lt(pos, n)))
		x.useAxioms("rune")
		r := x.ctx.App("runeAt", IntSort, it.str, pos)
		w := x.ctx.App("runeWidth", IntSort, it.str, pos)
		x.assume(st, Implies(okT, And(Ge(w, IntLit(1)), Le(w, IntLit(4)), Le(Add(pos, w), n),
			Implies(Lt(x.sat(it.str, pos), IntLit(128)), And(Eq(w, IntLit(1)), Eq(r, x.sat(it.str, pos)))),
			Implies(Ge(x.sat(it.str, pos), IntLit(128)), Ge(r, IntLit(128))),
			Ge(r, IntLit(0)), Le(r, IntLit(0x10FFFF)))))
		st.cells[it.cell] = scalar(types.Typ[types.Int], Ite(okT, Add(pos, w), pos))
		x.cellsW[it.cell] = true
		return &Value{K: KTuple, T: tt, Fields: []*Value{scalar(types.Typ[types.Bool], okT), scalar(tt.At(1).Type(), pos), scalar(tt.At(2).Type(), r)}}
	}
	mi := x.mapInfoOf(it.mapT)
	seen := st.cells[it.cell].Term
	k := x.freshValue("next_k", mi.kT, st.guard)
	ks := leafTerms(k)
	present := x.mapPresent(st, it.mapT, it.mapR)
	// ok ==> k present and unseen ; !ok ==> every present key has been seen
	bv := make([]*Term, len(mi.kLeaves))
	for i, l := range mi.kLeaves {
		bv[i] = BoundVar(fmt.Sprintf("k%d", i), l.Sort)
	}
	allSeen := Forall(bv, Implies(selectN(present, bv), selectN(seen, bv)))
	x.assume(st, Implies(okT, And(selectN(present, ks), Not(selectN(seen, ks)))))
	x.assume(st, Implies(Not(okT), allSeen))
	// ranging over a nil map yields nothing
	x.assume(st, Implies(Eq(it.mapR, x.null()), Not(okT)))
	// iteration count: as long as the map has not been written since the range started, the
	// number of keys yielded is at most len(map), and equals it when the iteration ends
	if it.cnt != nil {
		if cv, ok := st.cells[it.cnt]; ok {
			cnt := cv.Term
			if present.String() == it.present0 {
				x.assume(st, And(Ge(cnt, IntLit(0)), Implies(Eq(it.mapR, x.null()), Eq(cnt, IntLit(0)))))
				x.assume(st, Implies(And(okT, Neq(it.mapR, x.null())), Lt(cnt, it.len0)))
				x.assume(st, Implies(And(Not(okT), Neq(it.mapR, x.null())), Eq(cnt, it.len0)))
			}
			st.cells[it.cnt] = scalar(types.Typ[types.Int], Ite(okT, Add(cnt, IntLit(1)), cnt))
			x.cellsW[it.cnt] = true
		}
	}
	// (when ok is false the loop is left and the extra key is harmless: 'seen' only grows)
	nseen := storeN(seen, ks, True)
	st.cells[it.cell] = &Value{K: KScalar, Term: x.name("seen", nseen)}
	x.cellsW[it.cell] = true
	val := x.mapGetRaw(st, it.mapT, it.mapR, k)
	kk := k
	if tt.At(1).Type() != nil {
		if _, invalid := tt.At(1).Type().(*types.Basic); invalid && tt.At(1).Type().(*types.Basic).Kind() == types.Invalid {
			kk = scalar(tt.At(1).Type(), x.null())
		}
	}
	vv := val
	if bt, invalid := tt.At(2).Type().(*types.Basic); invalid && bt.Kind() == types.Invalid {
		vv = scalar(tt.At(2).Type(), x.null())
	}
	return &Value{K: KTuple, T: tt, Fields: []*Value{scalar(types.Typ[types.Bool], okT), kk, vv}}
}

// ---- panics ----

func (x *Exec) panicReached(fr *Frame, st *State, in *ssa.Panic) {
	// "panics when P": allowed when P holds at entry
	allowed := False
	if fr.isRoot && fr.contract != nil {
		for _, c := range fr.contract.PanicsWhen {
			allowed = Or(allowed, x.evalClause(fr, c, fr.entry, fr.entry, nil))
		}
	}
	x.safetyOblige(fr, st, "panic", "panic reachable", allowed, in.Pos())
	st.guard = False
}

// allocNow is the current value of the (symbolic) allocation counter.
func (x *Exec) allocNow() *Term {
	if x.allocBase == nil {
		return IntLit(int64(x.allocOff))
	}
	return Add(x.allocBase, IntLit(int64(x.allocOff)))
}

// allocEpoch starts a new allocation epoch (after a havoc): everything that exists now has an
// allocation id <= the new base; later allocations get larger ids.
func (x *Exec) allocEpoch() *Term {
	prev := x.allocNow()
	b := x.ctx.Fresh("allocBase", IntSort)
	x.facts = append(x.facts, Ge(b, prev))
	x.allocBase = b
	x.allocOff = 0
	return b
}

// boundRefs assumes allocId <= bound for every reference leaf of v.
func (x *Exec) boundRefs(v *Value, bound *Term) {
	if v.K == KPtr && (v.P.Cell != nil) {
		return
	}
	if v.K == KFunc && v.Term == nil {
		return
	}
	func() {
		defer func() { recover() }()
		for _, t := range leafTerms(v) {
			if t.Sort.Kind == SRef {
				x.facts = append(x.facts, Le(x.ctx.App("allocId", IntSort, t), bound))
			}
		}
	}()
}

func (x *Exec) isNonnilGlobal(g string) bool {
	if x.nonnilGlobals[g] {
		return true
	}
	if i := strings.LastIndex(g, "/"); i >= 0 {
		return x.nonnilGlobals[g[i+1:]]
	}
	return false
}
