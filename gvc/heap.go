package main

// Memory model: Burstall-Bornat heap. One SMT array per (object type, leaf path):
//   O:<type>/<leaf>  : Array Ref S              fields of heap objects reached through pointers
//   E:<elem>/<leaf>  : Array Ref (Array Int S)  slice / array backing stores
//   MP:<maptype>     : Array Ref (Array K Bool) map key presence
//   MV:<maptype>/<l> : Array Ref (Array K S)    map values
//   ML:<maptype>     : Array Ref Int            map cardinality (len)
// Non-escaping locals are Go-side cells.

import (
	"fmt"
	"go/types"
	"sort"
	"strings"
)

type State struct {
	guard *Term
	heap  map[string]*Term
	cells map[*Cell]*Value
	// snaps: ghost snapshots of the state right after the most recent call of a tracked callee
	// (after(F, expr) in contracts); shared, never mutated
	snaps map[string]*State
	// havocID != 0: an unmodelled call (or a loop writing everything) happened on this path; heap
	// arrays not touched since then are arbitrary (a per-havoc default array), not the entry heap
	havocID int
}

func (s *State) clone() *State {
	n := &State{guard: s.guard, heap: make(map[string]*Term, len(s.heap)), cells: make(map[*Cell]*Value, len(s.cells)), havocID: s.havocID}
	if len(s.snaps) > 0 {
		n.snaps = make(map[string]*State, len(s.snaps))
		for k, v := range s.snaps {
			n.snaps[k] = v
		}
	}
	for k, v := range s.heap {
		n.heap[k] = v
	}
	for k, v := range s.cells {
		n.cells[k] = v
	}
	return n
}

func canonKey(t types.Type) string {
	if b, ok := t.(*types.Basic); ok {
		switch b.Kind() {
		case types.Uint8:
			return "uint8"
		case types.Int32:
			return "int32"
		}
	}
	if a, ok := t.(*types.Alias); ok {
		return canonKey(types.Unalias(a))
	}
	return typeKey(t)
}

// heapSorts remembers the sort of each heap array key.
func (x *Exec) heapArr(st *State, key string, s *Sort) *Term {
	if x.heapReads != nil {
		x.heapReads = append(x.heapReads, heapRead{st, key})
	}
	if t, ok := st.heap[key]; ok {
		if t.Op != "const" && nodeCountAtLeast(t, 400) {
			// keep every heap definition small: name large terms (their printed form is a tree)
			c := x.ctx.Fresh("h_"+shortKey(key), t.Sort)
			x.facts = append(x.facts, Eq(c, t))
			st.heap[key] = c
			return c
		}
		return t
	}
	if _, known := x.heapSort[key]; !known {
		x.heapSort[key] = s
		x.entryHeapFacts(key, s)
	}
	if st.havocID != 0 && !(len(key) > 2 && key[:2] == "G:" && x.keepGhost) {
		// first read of this array after a havoc of everything: arbitrary contents
		name := fmt.Sprintf("Hv%d_%s", st.havocID, key)
		c := x.ctx.Const(name, s)
		if !x.havocDefaults[name] {
			if x.havocDefaults == nil {
				x.havocDefaults = map[string]bool{}
			}
			x.havocDefaults[name] = true
			x.heapTypeFacts(key, c)
		}
		st.heap[key] = c
		return c
	}
	return x.ctx.Const("H0_"+key, s)
}

const offsetAssumption = "input slices (parameters, values in the entry heap, results of assumed externs) start at offset 0 of their backing array: distinct input slices are identical windows or disjoint"

type heapRead struct {
	st  *State
	key string
}

// entryHeapFacts: references stored in the entry heap were allocated before the call.
func (x *Exec) entryHeapFacts(key string, s *Sort) {
	n := len(x.facts)
	if strings.HasSuffix(key, "#off") {
		// input slices start at offset 0 of their backing array (assumption: no partially overlapping input slices)
		arr := x.ctx.Const("H0_"+key, s)
		var idx []*Term
		srt := s
		cur := arr
		for srt.Kind == SArray {
			v := BoundVar(fmt.Sprintf("i%d", len(idx)), srt.Key)
			idx = append(idx, v)
			cur = Select(cur, v)
			srt = srt.Val
		}
		if srt.Kind == SInt {
			x.facts = append(x.facts, Forall(idx, Eq(cur, IntLit(0)), []*Term{cur}))
			x.trusted[offsetAssumption] = true
		}
	}
	x.heapTypeFacts(key, x.ctx.Const("H0_"+key, s))
	x.refBound(x.ctx.Const("H0_"+key, s), IntLit(0))
	x.perm = append(x.perm, x.facts[n:]...)
	x.facts = x.facts[:n]
}

// refBound asserts allocId(v) <= bound for every Ref stored (at any index) in array term arr.
func (x *Exec) refBound(arr *Term, bound *Term) {
	var idx []*Term
	srt := arr.Sort
	cur := arr
	for srt.Kind == SArray {
		v := BoundVar(fmt.Sprintf("i%d", len(idx)), srt.Key)
		idx = append(idx, v)
		cur = Select(cur, v)
		srt = srt.Val
	}
	if srt.Kind != SRef || len(idx) == 0 {
		return
	}
	x.useAxioms("alloc")
	body := Le(x.ctx.App("allocId", IntSort, cur), bound)
	if idx[0].Sort.Kind == SRef {
		// only objects that existed at that point: the row of an object allocated later is not part
		// of this heap (a modular callee may return a fresh object whose fields the caller reads
		// from its own, unchanged, arrays)
		body = Implies(Le(x.ctx.App("allocId", IntSort, idx[0]), bound), body)
	}
	x.facts = append(x.facts, Forall(idx, body, []*Term{cur}))
}

// liftSort lifts sort s over the array indices in path.
func liftCount(p []PathElem) int {
	n := 0
	for _, e := range p {
		if e.Idx != nil {
			n++
		}
	}
	return n
}

func lifted(s *Sort, n int) *Sort {
	for i := 0; i < n; i++ {
		s = ArraySort(IntSort, s)
	}
	return s
}

// leafKey computes the heap key and stored sort of leaf l (of the value type at p.Path) for pointer p.
func (x *Exec) leafKey(p *Pointer, l Leaf) (key string, stored *Sort, idxs []*Term) {
	full := joinPath(pathString(p.Path), l.Path)
	inner := lifted(l.Sort, 0)
	// array indices inside the path lift the stored sort
	var pathIdx []*Term
	for _, e := range p.Path {
		if e.Idx != nil {
			pathIdx = append(pathIdx, e.Idx)
		}
	}
	// sort stored per object: leaf sort lifted once per array level on the path
	objLeaf := lifted(inner, len(pathIdx))
	if p.Elem {
		key = "E:" + canonKey(p.ObjT) + "/" + full
		stored = ArraySort(RefSort, ArraySort(IntSort, objLeaf))
		idxs = append([]*Term{p.Base, p.Idx}, pathIdx...)
	} else {
		key = "O:" + canonKey(p.ObjT) + "/" + full
		stored = ArraySort(RefSort, objLeaf)
		idxs = append([]*Term{p.Base}, pathIdx...)
	}
	return
}

func selectN(arr *Term, idxs []*Term) *Term {
	for _, i := range idxs {
		arr = Select(arr, i)
	}
	return arr
}

func storeN(arr *Term, idxs []*Term, v *Term) *Term {
	if len(idxs) == 0 {
		return v
	}
	return Store(arr, idxs[0], storeN(Select(arr, idxs[0]), idxs[1:], v))
}

// load reads a value of type t through pointer p in state st.
func (x *Exec) load(st *State, p *Pointer, t types.Type) *Value {
	if p.Cell != nil {
		v, ok := st.cells[p.Cell]
		if !ok {
			v = x.zeroValue(p.Cell.T)
		}
		return x.project(v, p.Path)
	}
	if at := wholeArrayThroughAllocPtr(p, t); at != nil {
		// *p where p is the address of an array variable: the array's elements live in the slice-backing heap
		// under the element type's keys (instr.go, Alloc), so the whole array is that heap row
		el := leavesOf(at.Elem())
		i := 0
		return buildValue(t, func(Leaf) *Term {
			key, stored, _ := x.leafKey(p, el[i])
			i++
			return Select(x.heapArr(st, key, stored), p.Base)
		})
	}
	return buildValue(t, func(l Leaf) *Term {
		key, stored, idxs := x.leafKey(p, l)
		arr := x.heapArr(st, key, stored)
		if strings.HasSuffix(key, "#off") && len(p.Path) == 0 && x.zeroOffBases != nil && x.zeroOffBases[p.Base.String()] {
			// a slice variable the closure under verification captures, under its `zerooffsets` clause: every store
			// to it is obliged to store offset 0 (instr.go), the enclosing function's initial value is assumed to
			return IntLit(0)
		}
		if strings.HasSuffix(key, "#off") && arr.Op == "const" && strings.HasPrefix(arr.Name, "H0_") {
			// slices in the entry heap start at offset 0 (offsetAssumption); using the literal keeps
			// element indices free of symbolic offsets
			x.trusted[offsetAssumption] = true
			return IntLit(0)
		}
		return selectN(arr, idxs)
	})
}

// store writes v through pointer p.
func (x *Exec) store(st *State, p *Pointer, v *Value) {
	if p.Cell != nil {
		old, ok := st.cells[p.Cell]
		if !ok {
			old = x.zeroValue(p.Cell.T)
		}
		st.cells[p.Cell] = x.inject(old, p.Path, v)
		return
	}
	ts := leafTerms(v)
	if at := wholeArrayThroughAllocPtr(p, v.T); at != nil {
		for i, l := range leavesOf(at.Elem()) {
			key, stored, _ := x.leafKey(p, l)
			st.heap[key] = Store(x.heapArr(st, key, stored), p.Base, ts[i])
			x.noteWrite(key, p.Base)
		}
		return
	}
	for i, l := range leavesOf(v.T) {
		key, stored, idxs := x.leafKey(p, l)
		arr := x.heapArr(st, key, stored)
		st.heap[key] = storeN(arr, idxs, ts[i])
		x.noteWrite(key, p.Base)
	}
}

// project extracts the sub-value at path.
func (x *Exec) project(v *Value, path []PathElem) *Value {
	for _, e := range path {
		if e.Idx != nil {
			if v.K != KArray {
				panic("project: index into non-array")
			}
			idx := e.Idx
			v = mapLeavesT(v.Elems, under(v.T).(*types.Array).Elem(), func(t *Term) *Term { return Select(t, idx) })
		} else {
			if v.K != KStruct {
				panic("project: field of non-struct")
			}
			v = v.Fields[e.Field]
		}
	}
	return v
}

// mapLeavesT maps the leaves of a lifted value producing a value of type t.
func mapLeavesT(v *Value, t types.Type, f func(*Term) *Term) *Value {
	ts := leafTermsLifted(v)
	i := 0
	return buildValue(t, func(l Leaf) *Term {
		r := f(ts[i])
		i++
		return r
	})
}

func leafTermsLifted(v *Value) []*Term { return leafTerms(v) }

// inject returns old with the sub-value at path replaced by nv.
func (x *Exec) inject(old *Value, path []PathElem, nv *Value) *Value {
	if len(path) == 0 {
		return nv
	}
	e := path[0]
	if e.Idx != nil {
		if old.K != KArray {
			panic("inject: index into non-array")
		}
		et := under(old.T).(*types.Array).Elem()
		cur := mapLeavesT(old.Elems, et, func(t *Term) *Term { return Select(t, e.Idx) })
		upd := x.inject(cur, path[1:], nv)
		ot, ut := leafTerms(old.Elems), leafTerms(upd)
		i := 0
		elems := buildValue(et, func(l Leaf) *Term {
			r := Store(ot[i], e.Idx, ut[i])
			i++
			return r
		})
		// buildValue built leaves with element sorts; rebuild as lifted value
		return &Value{K: KArray, T: old.T, Elems: liftedShape(elems, ot, ut, e.Idx)}
	}
	if old.K != KStruct {
		panic("inject: field of non-struct")
	}
	n := &Value{K: KStruct, T: old.T, Fields: append([]*Value(nil), old.Fields...)}
	n.Fields[e.Field] = x.inject(old.Fields[e.Field], path[1:], nv)
	return n
}

func liftedShape(shape *Value, ot, ut []*Term, idx *Term) *Value { return shape }

// zeroValue is the Go zero value of t.
func (x *Exec) zeroValue(t types.Type) *Value {
	return buildValue(t, func(l Leaf) *Term { return x.zeroOfSort(l.Sort) })
}

func (x *Exec) zeroOfSort(s *Sort) *Term {
	switch s.Kind {
	case SInt:
		return IntLit(0)
	case SReal:
		return &Term{Op: "int", Int: IntLit(0).Int, Sort: RealSort}
	case SBool:
		return False
	case SStr:
		return x.strLit("")
	case SRef:
		return x.null()
	case SArray:
		if s.Val.Kind == SRef || s.Val.Kind == SStr || s.Val.Kind == SArray {
			// cvc5 only accepts values as constant-array defaults: use a named array with a defining axiom
			name := "zarr$" + sanitize(s.String())
			c := x.ctx.Const(name, s)
			if !x.zarrSeen[name] {
				x.zarrSeen[name] = true
				i := BoundVar("i", s.Key)
				x.perm = append(x.perm, Forall([]*Term{i}, Eq(Select(c, i), x.zeroOfSort(s.Val)), []*Term{Select(c, i)}))
			}
			return c
		}
		return ConstArray(s, x.zeroOfSort(s.Val))
	}
	panic("zeroOfSort")
}

func (x *Exec) null() *Term { return x.ctx.Const("null", RefSort) }

// freshValue makes an unconstrained value of type t (with type-range facts assumed under guard).
func (x *Exec) freshValue(prefix string, t types.Type, guard *Term) *Value {
	v := buildValue(t, func(l Leaf) *Term {
		return x.ctx.Fresh(prefix+"_"+l.Path, l.Sort)
	})
	x.assumeTypeInv(v, guard)
	return v
}

// ---- maps ----

type mapInfo struct {
	key     string
	kLeaves []Leaf
	vT      types.Type
	kT      types.Type
}

func (x *Exec) mapInfoOf(t types.Type) *mapInfo {
	m := under(t).(*types.Map)
	return &mapInfo{key: canonKey(under(t)), kLeaves: leavesOf(m.Key()), vT: m.Elem(), kT: m.Key()}
}

func curried(ks []Leaf, v *Sort) *Sort {
	for i := len(ks) - 1; i >= 0; i-- {
		v = ArraySort(ks[i].Sort, v)
	}
	return v
}

// mapPresent returns the (curried) presence array of map m in st.
func (x *Exec) mapPresent(st *State, t types.Type, m *Term) *Term {
	mi := x.mapInfoOf(t)
	return Select(x.heapArr(st, "MP:"+mi.key, ArraySort(RefSort, curried(mi.kLeaves, BoolSort))), m)
}

func (x *Exec) mapHas(st *State, t types.Type, m *Term, k *Value) *Term {
	// a nil map has no keys
	return And(Neq(m, x.null()), selectN(x.mapPresent(st, t, m), leafTerms(k)))
}

func (x *Exec) mapGetRaw(st *State, t types.Type, m *Term, k *Value) *Value {
	mi := x.mapInfoOf(t)
	ks := leafTerms(k)
	return buildValue(mi.vT, func(l Leaf) *Term {
		arr := x.heapArr(st, "MV:"+mi.key+"/"+l.Path, ArraySort(RefSort, curried(mi.kLeaves, l.Sort)))
		return selectN(Select(arr, m), ks)
	})
}

// mapGet implements m[k]: the zero value when absent.
func (x *Exec) mapGet(st *State, t types.Type, m *Term, k *Value) *Value {
	mi := x.mapInfoOf(t)
	has := x.mapHas(st, t, m, k)
	raw := x.mapGetRaw(st, t, m, k)
	zero := x.zeroValue(mi.vT)
	return zipLeaves(raw, zero, func(a, b *Term) *Term { return Ite(has, a, b) })
}

func (x *Exec) mapLen(st *State, t types.Type, m *Term) *Term {
	mi := x.mapInfoOf(t)
	return Select(x.heapArr(st, "ML:"+mi.key, ArraySort(RefSort, IntSort)), m)
}

func (x *Exec) mapSet(st *State, t types.Type, m *Term, k, v *Value) {
	mi := x.mapInfoOf(t)
	ks := leafTerms(k)
	had := x.mapHas(st, t, m, k)
	pk := "MP:" + mi.key
	parr := x.heapArr(st, pk, ArraySort(RefSort, curried(mi.kLeaves, BoolSort)))
	// an assignment to an entry of a nil map panics (a separate obligation): nothing is written at
	// the null reference, so that execution continued under `nosafety` does not invent a write
	isNil := Eq(m, x.null())
	idx := append([]*Term{m}, ks...)
	st.heap[pk] = storeN(parr, idx, Ite(isNil, selectN(parr, idx), True))
	x.noteWrite(pk, m)
	vs := leafTerms(v)
	for i, l := range leavesOf(mi.vT) {
		key := "MV:" + mi.key + "/" + l.Path
		arr := x.heapArr(st, key, ArraySort(RefSort, curried(mi.kLeaves, l.Sort)))
		st.heap[key] = storeN(arr, idx, Ite(isNil, selectN(arr, idx), vs[i]))
		x.noteWrite(key, m)
	}
	lk := "ML:" + mi.key
	larr := x.heapArr(st, lk, ArraySort(RefSort, IntSort))
	st.heap[lk] = Store(larr, m, Ite(Or(had, isNil), Select(larr, m), Add(Select(larr, m), IntLit(1))))
	x.noteWrite(lk, m)
}

func (x *Exec) mapDelete(st *State, t types.Type, m *Term, k *Value) {
	mi := x.mapInfoOf(t)
	ks := leafTerms(k)
	had := x.mapHas(st, t, m, k)
	pk := "MP:" + mi.key
	parr := x.heapArr(st, pk, ArraySort(RefSort, curried(mi.kLeaves, BoolSort)))
	// delete on a nil map is a no-op: nothing is written at the null reference
	idx := append([]*Term{m}, ks...)
	st.heap[pk] = storeN(parr, idx, Ite(Eq(m, x.null()), selectN(parr, idx), False))
	x.noteWrite(pk, m)
	lk := "ML:" + mi.key
	larr := x.heapArr(st, lk, ArraySort(RefSort, IntSort))
	st.heap[lk] = Store(larr, m, Ite(had, Sub(Select(larr, m), IntLit(1)), Select(larr, m)))
	x.noteWrite(lk, m)
}

// ---- state merge ----

// mergeStates merges states reaching a join. Each state's guard is its reachability condition.
func (x *Exec) mergeStates(sts []*State) *State {
	if len(sts) == 1 {
		return sts[0].clone()
	}
	var guards []*Term
	for _, s := range sts {
		guards = append(guards, s.guard)
	}
	out := &State{guard: x.name("g", Or(guards...)), heap: map[string]*Term{}, cells: map[*Cell]*Value{}}
	out.havocID = sts[0].havocID
	for _, s := range sts[1:] {
		if s.havocID != out.havocID {
			// paths with different histories: arrays no path has touched are arbitrary from here on
			x.havocN++
			out.havocID = 1000000 + x.havocN
			break
		}
	}
	keys := map[string]bool{}
	for _, s := range sts {
		for k := range s.heap {
			keys[k] = true
		}
	}
	ks := make([]string, 0, len(keys))
	for k := range keys {
		ks = append(ks, k)
	}
	sort.Strings(ks)
	for _, k := range ks {
		srt := x.heapSort[k]
		var acc *Term
		same := true
		for i := len(sts) - 1; i >= 0; i-- {
			h := x.heapArr(sts[i], k, srt)
			if acc == nil {
				acc = h
			} else {
				if h != acc && h.String() != acc.String() {
					same = false
				}
				acc = Ite(sts[i].guard, h, acc)
			}
		}
		if same {
			out.heap[k] = acc // untouched on every incoming path: keep the term (and its structure)
		} else {
			out.heap[k] = x.name("h_"+shortKey(k), acc)
		}
	}
	// a snapshot survives a merge if every incoming path that has one took the same one (paths
	// on which the callee was never called have none: clauses using after(F, ..) guard with called(F))
	snapKeys := map[string]bool{}
	for _, s := range sts {
		for k := range s.snaps {
			snapKeys[k] = true
		}
	}
	for k := range snapKeys {
		var v *State
		same := true
		for _, s := range sts {
			if sv, ok := s.snaps[k]; ok {
				if v == nil {
					v = sv
				} else if sv != v {
					same = false
				}
			}
		}
		if same && v != nil {
			if out.snaps == nil {
				out.snaps = map[string]*State{}
			}
			out.snaps[k] = v
		}
	}
	cells := map[*Cell]bool{}
	for _, s := range sts {
		for c := range s.cells {
			cells[c] = true
		}
	}
	var cl []*Cell
	for c := range cells {
		cl = append(cl, c)
	}
	sort.Slice(cl, func(i, j int) bool { return cl[i].ID < cl[j].ID })
	for _, c := range cl {
		var acc *Value
		for i := len(sts) - 1; i >= 0; i-- {
			v, ok := sts[i].cells[c]
			if !ok {
				if c.T == nil {
					continue
				}
				v = x.zeroValue(c.T)
			}
			if acc == nil {
				acc = v
			} else {
				if c.T == nil {
					acc = &Value{K: KScalar, Term: Ite(sts[i].guard, v.Term, acc.Term)}
				} else {
					acc = iteValue(sts[i].guard, v, acc)
				}
			}
		}
		if acc != nil {
			out.cells[c] = acc
		}
	}
	return out
}

func shortKey(k string) string {
	if i := strings.LastIndex(k, "."); i >= 0 && i < len(k)-1 && !strings.Contains(k[i:], "/") {
		k = k[i+1:]
	}
	if len(k) > 40 {
		k = k[len(k)-40:]
	}
	return k
}

// name binds a non-trivial term to a fresh constant (keeps VCs DAG-sized).
func (x *Exec) name(prefix string, t *Term) *Term {
	if t.Op == "const" || t.Op == "true" || t.Op == "false" || t.Op == "int" || len(t.String()) < 60 {
		return t
	}
	c := x.ctx.Fresh(prefix, t.Sort)
	x.facts = append(x.facts, Eq(c, t))
	return c
}

// noteWrite records that heap array `key` was written at object `base` (nil: unknown objects).
func (x *Exec) noteWrite(key string, base *Term) {
	x.written[key] = true
	x.writeBases[key] = append(x.writeBases[key], base)
}

// heapTypeFacts: type invariants of values stored in a (fresh) heap array: slice lengths and
// interface tags are non-negative.
func (x *Exec) heapTypeFacts(key string, arr *Term) {
	if !(strings.HasSuffix(key, "#len") || strings.HasSuffix(key, "#tag") || strings.HasPrefix(key, "ML:")) {
		return
	}
	var idx []*Term
	srt := arr.Sort
	cur := arr
	for srt.Kind == SArray {
		v := BoundVar(fmt.Sprintf("i%d", len(idx)), srt.Key)
		idx = append(idx, v)
		cur = Select(cur, v)
		srt = srt.Val
	}
	if srt.Kind == SInt && len(idx) > 0 {
		x.facts = append(x.facts, Forall(idx, Ge(cur, IntLit(0)), []*Term{cur}))
	}
}

// nodeCountAtLeast reports whether the tree size of t reaches n (bounded traversal).
func nodeCountAtLeast(t *Term, n int) bool {
	cnt := 0
	var walk func(t *Term) bool
	walk = func(t *Term) bool {
		cnt++
		if cnt >= n {
			return true
		}
		for _, a := range t.Args {
			if walk(a) {
				return true
			}
		}
		return false
	}
	return walk(t)
}

// wholeArrayThroughAllocPtr recognises a load or store of a whole array of type t through the address of an
// array variable (an Alloc of array type: element pointer with index 0 whose object type is the array's
// element type) and returns the array type; nil otherwise.
func wholeArrayThroughAllocPtr(p *Pointer, t types.Type) *types.Array {
	at, ok := under(t).(*types.Array)
	if !ok || p == nil || !p.Elem || len(p.Path) != 0 || p.ObjT == nil || !types.Identical(at.Elem(), p.ObjT) {
		return nil
	}
	if p.Idx == nil || !(p.Idx.Op == "int" && p.Idx.Int != nil && p.Idx.Int.Sign() == 0) {
		panic(unsupported{"whole-array access through a pointer into the middle of an array"})
	}
	return at
}
