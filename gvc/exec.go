package main

// Symbolic execution of go/ssa function bodies with path merging; generates proof obligations.

import (
	"fmt"
	"go/constant"
	"go/token"
	"go/types"
	"math/big"
	"os"
	"regexp"
	"sort"
	"strings"

	"golang.org/x/tools/go/ssa"
)

type Obligation struct {
	Name   string
	Kind   string // ensures, requires(call.pre), inv.entry, inv.preserved, index, nil, panic, assert, div, frame, cover, ...
	Func   string
	Label  string
	Guard  *Term
	Goal   *Term
	NFacts int
	Pos    string
	Src    string // contract source text or Go expression text
	Inputs map[string]*Term
	Props  []string // properties this obligation is attributed to
}

type Exec struct {
	zeroOffBases  map[string]bool // cells of captured slice variables kept at offset 0 (closure contracts with `zerooffsets`)
	resolveLimit  int // >0: while resolving Go variable names at a call site, definitions of the same block before this instruction index count
	ctx           *Ctx
	prog          *ssa.Program
	db            *SpecDB
	fset          *token.FileSet
	facts         []*Term
	obls          []*Obligation
	heapSort      map[string]*Sort
	written       map[string]bool
	cellsW        map[*Cell]bool
	strLits       map[string]*Term
	typeTags      map[string]int
	tagTypes      map[int]types.Type
	fnRefs        map[string]*Term
	fnByRef       map[string]*ssa.Function
	root          *ssa.Function
	discover      int
	nameCnt       map[string]int
	cellID        int
	allocN        int
	allocOff      int
	allocBase     *Term
	freshRefs     map[string]bool
	freshNames    map[string]bool
	writeBases    map[string][]*Term
	stack         []*ssa.Function
	trusted       map[string]bool // assumed contracts / modelling assumptions actually used
	unmod         map[string]bool // unmodelled calls
	notes         []string
	axiomsOn      map[string]bool
	loopIter      map[*ssa.Next]*iterInfo
	safety        bool
	inputs        map[string]*Term
	maxDepth      int
	closures      map[string]*Value
	repoPkgs      map[string]bool
	havocN        int
	globals       map[string]func(*State) *Value
	lenientLoops  bool // drop loop clauses that do not fit the loop they are attached to (check.go)
	nonnilGlobals map[string]bool
	fitLoops      []string                   // kind of each loop of the function under contract, by ordinal
	fitHelpers    map[string]bool            // inlined repository functions without any contract entry
	fitIdents     map[string]map[string]bool // contract identifier -> kinds of Go variable it resolved to
	useContracts  bool
	specAxioms    []*Term
	globalRefs    map[string]*Term
	argNames      map[string]bool
	afterNames    map[string]bool
	ncallCells    map[string]*Cell
	applyBind     []*Value
	jsonFreshUsed bool
	needsLex      int
	havocDefaults map[string]bool
	keepGhost     bool
	argCells      map[string]*Cell
	mkstrSeen     map[string]bool
	zarrSeen      map[string]bool
	heapReads     []heapRead
	rootFrame     *Frame
	inLaw         map[string]bool
	lawState      *State
	accessorState *State // state in which defined accessors are evaluated
	allFuncs      map[string]*ssa.Function
	namedFuns     map[string]*namedFun
	namedReads    map[string][]string
	perm          []*Term // facts that hold unconditionally and must survive roll-backs (literal definitions, ...)
	calledCells   map[string]*Cell
	retCells      map[string]*Cell
	entryFacts    []*Term
	rootArgs      []*Value
	lateFacts     []*Term
}

type iterInfo struct {
	cell *Cell
	mapT types.Type
	mapR *Term
	kind string // map, string
	str  *Term
	// map iteration count (ghost): number of keys yielded so far; related to len(map) as long
	// as the map's presence array is the one the iteration started with
	cnt      *Cell
	present0 string
	len0     *Term
}

func NewExec(prog *ssa.Program, db *SpecDB, fset *token.FileSet) *Exec {
	return &Exec{ctx: NewCtx(), prog: prog, db: db, fset: fset, heapSort: map[string]*Sort{}, written: map[string]bool{}, cellsW: map[*Cell]bool{},
		strLits: map[string]*Term{}, typeTags: map[string]int{}, tagTypes: map[int]types.Type{}, fnRefs: map[string]*Term{}, fnByRef: map[string]*ssa.Function{},
		nameCnt: map[string]int{}, trusted: map[string]bool{}, unmod: map[string]bool{}, axiomsOn: map[string]bool{}, safety: true, maxDepth: 8, useContracts: true,
		closures: map[string]*Value{}, repoPkgs: map[string]bool{}, mkstrSeen: map[string]bool{}, zarrSeen: map[string]bool{}, namedFuns: map[string]*namedFun{}, inLaw: map[string]bool{}, namedReads: map[string][]string{}, freshRefs: map[string]bool{}, freshNames: map[string]bool{}, writeBases: map[string][]*Term{}}
}

type Frame struct {
	fn            *ssa.Function
	regs          map[ssa.Value]*Value
	params        []*Value
	condDefer     *ssa.Defer
	condDeferCell *Cell
	bind          []*Value
	entry         *State
	rets          []retInfo
	blockOut      map[*ssa.BasicBlock]*State
	contract      *Contract
	loops         map[*ssa.BasicBlock]*loopInfo
	order         []*ssa.BasicBlock
	defers        []*ssa.Defer
	isRoot        bool
	depth         int
	phiOv         map[ssa.Value]*Value
	iters         map[ssa.Value]*iterInfo
	named         map[string]*Value // named results at return
}

type retInfo struct {
	st   *State
	vals []*Value
}

type loopInfo struct {
	header    *ssa.BasicBlock
	ordinal   int
	body      map[*ssa.BasicBlock]bool
	backs     []*ssa.BasicBlock
	variant0  []*Term // values of the `decreases` expressions at the loop head
	headState *State  // state at the loop head of the iteration being executed
}

func (x *Exec) oblName(fn, kind, detail string) string {
	base := fn + "#" + kind
	if detail != "" {
		base += ":" + detail
	}
	x.nameCnt[base]++
	if n := x.nameCnt[base]; n > 1 {
		return fmt.Sprintf("%s#%d", base, n)
	}
	return base
}

func (x *Exec) oblige(fr *Frame, st *State, kind, detail, label string, goal *Term, pos token.Pos, src string) {
	if x.discover > 0 {
		return
	}
	if goal.IsTrue() {
		// trivially discharged; still counted so that the obligation count reflects the code
	}
	fname := funcDisplayName(fr.fn)
	name := x.oblName(fname, kind, detail)
	if label != "" {
		name = x.oblName(fname, kind, label)
	}
	o := &Obligation{Name: name, Kind: kind, Func: fname, Label: label, Guard: st.guard, Goal: goal, NFacts: len(x.facts), Src: src}
	o.Props = x.attribute(fr, kind, label)
	if pos.IsValid() {
		o.Pos = x.fset.Position(pos).String()
	}
	x.obls = append(x.obls, o)
}

func (x *Exec) safetyOblige(fr *Frame, st *State, kind, detail string, goal *Term, pos token.Pos) {
	if !x.safety {
		return
	}
	if fr.contract != nil && fr.contract.NoSafety {
		return
	}
	if x.rootFrame != nil && x.rootFrame.contract != nil && x.rootFrame.contract.NoSafety {
		return // also for code inlined into a function whose safety is not claimed
	}
	x.oblige(fr, st, kind, detail, "", goal, pos, detail)
}

func (x *Exec) assume(st *State, t *Term) {
	if t.IsTrue() {
		return
	}
	x.facts = append(x.facts, Implies(st.guard, t))
}

func funcDisplayName(fn *ssa.Function) string {
	if fn == nil {
		return "?"
	}
	name := fn.Name()
	if recv := fn.Signature.Recv(); recv != nil {
		name = "(" + shortType(recv.Type()) + ")." + fn.Name()
	}
	if fn.Parent() != nil {
		return funcDisplayName(fn.Parent()) + "$" + strings.TrimPrefix(fn.Name(), fn.Parent().Name()+"$")
	}
	return name
}

func shortType(t types.Type) string {
	return types.TypeString(t, func(p *types.Package) string { return "" })
}

// ---- strings ----

func (x *Exec) strLit(s string) *Term {
	if t, ok := x.strLits[s]; ok {
		return t
	}
	name := fmt.Sprintf("str!%d_%s", len(x.strLits), sanitize(trunc(s, 16)))
	t := x.ctx.Const(name, StrSort)
	t.Distinct = 1
	x.strLits[s] = t
	x.perm = append(x.perm, Eq(x.slen(t), IntLit(int64(len(s)))))
	if len(s) <= 80 {
		for i := 0; i < len(s); i++ {
			x.perm = append(x.perm, Eq(x.sat(t, IntLit(int64(i))), IntLit(int64(s[i]))))
		}
	}
	if len(s) == 1 {
		x.perm = append(x.perm, Eq(t, x.ctx.App("charStr", StrSort, IntLit(int64(s[0])))))
		x.useAxioms("strjoin")
	}
	// distinctness from the other literals: an injective numbering
	x.perm = append(x.perm, Eq(x.ctx.App("litId", IntSort, t), IntLit(int64(len(x.strLits)))))
	return t
}

func trunc(s string, n int) string {
	if len(s) > n {
		return s[:n]
	}
	return s
}

func (x *Exec) slen(s *Term) *Term {
	x.useAxioms("str")
	if s.Op == "ite" {
		return Ite(s.Args[0], x.slen(s.Args[1]), x.slen(s.Args[2]))
	}
	return x.ctx.App("slen", IntSort, s)
}
func (x *Exec) sbytes(s *Term) *Term {
	x.useAxioms("str")
	return x.ctx.App("sbytes", ArraySort(IntSort, IntSort), s)
}
func (x *Exec) sat(s, i *Term) *Term { return Select(x.sbytes(s), i) }
func (x *Exec) substr(s, lo, hi *Term) *Term {
	x.useAxioms("substr")
	// substr(substr(t,c,d),a,b) = substr(t,c+a,c+b) (in bounds, which Go guarantees for executed slices)
	if s.Op == "ite" {
		return Ite(s.Args[0], x.substr(s.Args[1], lo, hi), x.substr(s.Args[2], lo, hi))
	}
	if s.Op == "app" && s.Name == "substr" {
		c := s.Args[1]
		return x.ctx.App("substr", StrSort, s.Args[0], Add(c, lo), Add(c, hi))
	}
	return x.ctx.App("substr", StrSort, s, lo, hi)
}
func (x *Exec) mkstr(arr, off, n *Term) *Term {
	x.useAxioms("mkstr")
	t := x.ctx.App("mkstr", StrSort, arr, off, n)
	// the defining facts are instantiated per term (quantifying over array sorts makes z3 give up)
	if !x.mkstrSeen[t.String()] && !termHasBoundVar(t) {
		x.mkstrSeen[t.String()] = true
		i := BoundVar("i", IntSort)
		x.perm = append(x.perm,
			Implies(Ge(n, IntLit(0)), Eq(x.slen(t), n)),
			Forall([]*Term{i}, Implies(And(Le(IntLit(0), i), Lt(i, n)), Eq(x.sat(t, i), Select(arr, Add(off, i)))), []*Term{x.sat(t, i)}))
	}
	return t
}
func (x *Exec) sconcat(a, b *Term) *Term {
	x.useAxioms("concat")
	x.useAxioms("strjoin")
	return x.ctx.App("sconcat", StrSort, a, b)
}

func (x *Exec) useAxioms(group string) { x.axiomsOn[group] = true }

// litContent returns the content of a string-literal term.
func (x *Exec) litContent(t *Term) (string, bool) {
	if t.Op != "const" {
		return "", false
	}
	for c, lt := range x.strLits {
		if lt.Name == t.Name {
			return c, true
		}
	}
	return "", false
}

// hasPrefixTerm: for a literal prefix the definition is expanded byte-wise (ground, usable under
// binders); otherwise an uninterpreted predicate with the substr-based definition axiom.
func (x *Exec) hasPrefixTerm(s, p *Term) *Term {
	if c, ok := x.litContent(p); ok && len(c) <= 40 {
		cs := []*Term{Ge(x.slen(s), IntLit(int64(len(c))))}
		for i := 0; i < len(c); i++ {
			cs = append(cs, Eq(x.sat(s, IntLit(int64(i))), IntLit(int64(c[i]))))
		}
		return And(cs...)
	}
	x.useAxioms("prefix")
	return x.ctx.App("hasPrefix", BoolSort, s, p)
}

func (x *Exec) indexByte(s, c *Term) *Term {
	x.useAxioms("indexbyte")
	return x.ctx.App("indexByte", IntSort, s, c)
}

func (x *Exec) lastIndexByte(s, c *Term) *Term {
	x.useAxioms("indexbyte")
	return x.ctx.App("lastIndexByte", IntSort, s, c)
}

// singleByteLit: the byte of a one-byte string literal.
func (x *Exec) singleByteLit(t *Term) (*Term, bool) {
	if c, ok := x.litContent(t); ok && len(c) == 1 {
		return IntLit(int64(c[0])), true
	}
	return nil, false
}

func (x *Exec) hasSuffixTerm(s, p *Term) *Term {
	if c, ok := x.litContent(p); ok && len(c) <= 40 {
		n := int64(len(c))
		cs := []*Term{Ge(x.slen(s), IntLit(n))}
		for i := 0; i < len(c); i++ {
			cs = append(cs, Eq(x.sat(s, Add(Sub(x.slen(s), IntLit(n)), IntLit(int64(i)))), IntLit(int64(c[i]))))
		}
		return And(cs...)
	}
	x.useAxioms("prefix")
	return x.ctx.App("hasSuffix", BoolSort, s, p)
}

// ---- type tags / function identities ----

func (x *Exec) typeTag(t types.Type) *Term {
	k := canonKey(t)
	if n, ok := x.typeTags[k]; ok {
		return IntLit(int64(n))
	}
	n := len(x.typeTags) + 1
	x.typeTags[k] = n
	x.tagTypes[n] = t
	return IntLit(int64(n))
}

func (x *Exec) fnRef(fn *ssa.Function) *Term {
	k := fn.String()
	if t, ok := x.fnRefs[k]; ok {
		return t
	}
	t := x.ctx.Const("fn$"+sanitize(k), RefSort)
	for _, o := range x.fnRefs {
		x.perm = append(x.perm, Neq(t, o))
	}
	x.perm = append(x.perm, Neq(t, x.null()))
	x.fnRefs[k] = t
	x.fnByRef[t.Name] = fn
	return t
}

// ---- type invariants of symbolic inputs ----

var (
	maxInt64  = new(big.Int).SetUint64(1<<63 - 1)
	minInt64  = new(big.Int).Neg(new(big.Int).SetUint64(1 << 63))
	maxUint64 = new(big.Int).SetUint64(^uint64(0))
)

func intRange(b *types.Basic) (lo, hi *big.Int) {
	switch b.Kind() {
	case types.Int, types.Int64, types.UntypedInt:
		return minInt64, maxInt64
	case types.Int8:
		return big.NewInt(-128), big.NewInt(127)
	case types.Int16:
		return big.NewInt(-32768), big.NewInt(32767)
	case types.Int32, types.UntypedRune:
		return big.NewInt(-1 << 31), big.NewInt(1<<31 - 1)
	case types.Uint8:
		return big.NewInt(0), big.NewInt(255)
	case types.Uint16:
		return big.NewInt(0), big.NewInt(65535)
	case types.Uint32:
		return big.NewInt(0), big.NewInt(1<<32 - 1)
	case types.Uint, types.Uint64, types.Uintptr:
		return big.NewInt(0), maxUint64
	}
	return nil, nil
}

// typeInv returns the facts every Go value of its type satisfies (integer ranges, len >= 0, ...).
func (x *Exec) typeInv(v *Value) *Term {
	var cs []*Term
	var walk func(v *Value)
	walk = func(v *Value) {
		switch v.K {
		case KScalar:
			if b, ok := under(v.T).(*types.Basic); ok && b.Info()&types.IsInteger != 0 && v.Term.Sort.Kind == SInt {
				lo, hi := intRange(b)
				if lo != nil {
					cs = append(cs, Le(BigLit(lo), v.Term), Le(v.Term, BigLit(hi)))
				}
			}
		case KSlice:
			cs = append(cs, Le(IntLit(0), v.Len), Le(IntLit(0), v.Off), Le(v.Len, BigLit(maxInt64)),
				Implies(Eq(v.Ref, x.null()), Eq(v.Len, IntLit(0))))
		case KIface:
			cs = append(cs, Le(IntLit(0), v.Tag), Implies(Eq(v.Tag, IntLit(0)), Eq(v.IRef, x.null())))
		case KStruct, KTuple:
			for _, f := range v.Fields {
				walk(f)
			}
		}
	}
	walk(v)
	return And(cs...)
}

func (x *Exec) assumeTypeInv(v *Value, guard *Term) {
	t := x.typeInv(v)
	if !t.IsTrue() {
		x.facts = append(x.facts, t)
	}
}

// ---- constants ----

func (x *Exec) constValue(c *ssa.Const) *Value {
	t := c.Type()
	if c.Value == nil {
		// zero value / nil
		if b, ok := t.(*types.Basic); ok && b.Kind() == types.UntypedNil {
			return &Value{K: KPtr, T: t, P: &Pointer{Base: x.null(), ObjT: types.Typ[types.Int]}}
		}
		return x.zeroValue(t)
	}
	switch c.Value.Kind() {
	case constant.Bool:
		return scalar(t, BoolLit(constant.BoolVal(c.Value)))
	case constant.String:
		return scalar(t, x.strLit(constant.StringVal(c.Value)))
	case constant.Int:
		n, ok := new(big.Int).SetString(c.Value.ExactString(), 10)
		if !ok {
			failf("bad int constant %s", c.Value)
		}
		if b, isB := under(t).(*types.Basic); isB && b.Info()&types.IsFloat != 0 {
			return scalar(t, &Term{Op: "int", Int: n, Sort: RealSort})
		}
		return scalar(t, BigLit(n))
	case constant.Float:
		if r, ok := constant.Val(c.Value).(*big.Rat); ok && r.IsInt() {
			return scalar(t, &Term{Op: "int", Int: r.Num(), Sort: RealSort})
		}
		if f, ok := constant.Val(c.Value).(*big.Float); ok {
			if i, acc := f.Int(nil); acc == big.Exact {
				return scalar(t, &Term{Op: "int", Int: i, Sort: RealSort})
			}
		}
		x.note("float constant " + c.Value.String() + " approximated by a fresh real")
		return scalar(t, x.ctx.Fresh("fconst", RealSort))
	}
	failf("unsupported constant %s", c)
	return nil
}

func (x *Exec) note(s string) {
	for _, n := range x.notes {
		if n == s {
			return
		}
	}
	x.notes = append(x.notes, s)
}

// ---- values of SSA operands ----

func (x *Exec) val(fr *Frame, v ssa.Value) *Value {
	if fr.phiOv != nil {
		if o, ok := fr.phiOv[v]; ok {
			return o
		}
	}
	if r, ok := fr.regs[v]; ok {
		return r
	}
	switch v := v.(type) {
	case *ssa.Const:
		return x.constValue(v)
	case *ssa.Function:
		return &Value{K: KFunc, T: v.Type(), Fn: v, Term: x.fnRef(v)}
	case *ssa.Global:
		return &Value{K: KPtr, T: v.Type(), P: &Pointer{Base: x.globalRef(v.String()), ObjT: v.Type().(*types.Pointer).Elem(), Global: v.String()}}
	case *ssa.Builtin:
		return &Value{K: KFunc, T: v.Type()}
	case *ssa.FreeVar:
		for i, fv := range fr.fn.FreeVars {
			if fv == v {
				return fr.bind[i]
			}
		}
	}
	failf("value %s (%T) used before definition in %s", v.Name(), v, fr.fn.Name())
	return nil
}

// ---- function execution ----

type loopKey struct {
	fn *ssa.Function
	h  int
}

func (x *Exec) computeLoops(fn *ssa.Function) (order []*ssa.BasicBlock, loops map[*ssa.BasicBlock]*loopInfo) {
	loops = map[*ssa.BasicBlock]*loopInfo{}
	isBack := func(u, v *ssa.BasicBlock) bool { return v.Dominates(u) }
	for _, b := range fn.Blocks {
		for _, s := range b.Succs {
			if isBack(b, s) {
				li := loops[s]
				if li == nil {
					li = &loopInfo{header: s, body: map[*ssa.BasicBlock]bool{s: true}}
					loops[s] = li
				}
				li.backs = append(li.backs, b)
				// natural loop: all blocks that reach b without passing through s
				stack := []*ssa.BasicBlock{b}
				for len(stack) > 0 {
					n := stack[len(stack)-1]
					stack = stack[:len(stack)-1]
					if li.body[n] {
						continue
					}
					li.body[n] = true
					stack = append(stack, n.Preds...)
				}
			}
		}
	}
	var hs []*ssa.BasicBlock
	for h := range loops {
		hs = append(hs, h)
	}
	sort.Slice(hs, func(i, j int) bool { return loopPos(hs[i]) < loopPos(hs[j]) })
	for i, h := range hs {
		loops[h].ordinal = i + 1
	}
	if isRootLoops := x.root == fn; isRootLoops {
		x.fitLoops = nil
		for _, h := range hs {
			x.fitLoops = append(x.fitLoops, loopKind(h, loops[h]))
		}
	}
	// reverse post-order ignoring back edges
	visited := map[*ssa.BasicBlock]bool{}
	var post []*ssa.BasicBlock
	var dfs func(b *ssa.BasicBlock)
	dfs = func(b *ssa.BasicBlock) {
		visited[b] = true
		for _, s := range b.Succs {
			if !visited[s] && !isBack(b, s) {
				dfs(s)
			}
		}
		post = append(post, b)
	}
	if len(fn.Blocks) > 0 {
		dfs(fn.Blocks[0])
	}
	for i := len(post) - 1; i >= 0; i-- {
		order = append(order, post[i])
	}
	return
}

// loopPos orders loop headers by source position (falls back to block index).
func loopPos(h *ssa.BasicBlock) int {
	// go/ssa creates blocks in source order for structured code
	return h.Index
}

func loopPosOld(h *ssa.BasicBlock) int {
	best := 0
	for _, in := range h.Instrs {
		if p := in.Pos(); p.IsValid() {
			if best == 0 || int(p) < best {
				best = int(p)
			}
		}
	}
	// also consider the terminating If's condition position in the body blocks' first instr
	if best == 0 {
		return 1<<30 + h.Index
	}
	return best
}

func (x *Exec) execFunction(fn *ssa.Function, st *State, args, bind []*Value, contract *Contract, isRoot bool, depth int) (*State, []*Value) {
	if fn.Blocks == nil {
		failf("function %s has no body", fn)
	}
	fr := &Frame{fn: fn, regs: map[ssa.Value]*Value{}, params: args, bind: bind, entry: st.clone(), blockOut: map[*ssa.BasicBlock]*State{}, contract: contract, isRoot: isRoot, depth: depth, iters: map[ssa.Value]*iterInfo{}}
	for i, p := range fn.Params {
		fr.regs[p] = args[i]
	}
	fr.order, fr.loops = x.computeLoops(fn)
	if isRoot {
		x.rootFrame = fr
		// ghost "called" flags for callees mentioned as called(F) in the contract
		x.calledCells = map[string]*Cell{}
		if contract != nil {
			for _, n := range calledNames(contract, "called") {
				x.cellID++
				c := &Cell{Name: "called$" + n, T: tBool, ID: x.cellID}
				x.calledCells[n] = c
				st.cells[c] = scalar(tBool, False)
			}
			x.ncallCells = map[string]*Cell{}
			for _, n := range calledNames(contract, "ncalls") {
				x.cellID++
				c := &Cell{Name: "ncalls$" + n, T: tInt, ID: x.cellID}
				x.ncallCells[n] = c
				st.cells[c] = scalar(tInt, IntLit(0))
			}
			x.afterNames = map[string]bool{}
			for _, n := range calledNames(contract, "after") {
				x.afterNames[n] = true
			}
			x.argNames = map[string]bool{}
			x.argCells = map[string]*Cell{}
			for _, n := range calledNames(contract, "arg") {
				x.argNames[n] = true
			}
			x.retCells = map[string]*Cell{}
			for _, n := range calledNames(contract, "ret") {
				x.cellID++
				x.retCells[n] = &Cell{Name: "ret$" + n, ID: x.cellID}
			}
		}
	}
	x.stack = append(x.stack, fn)
	defer func() { x.stack = x.stack[:len(x.stack)-1] }()
	x.runBlocks(fr, fr.order, nil, nil, st)
	if len(fr.rets) == 0 {
		// function never returns normally (always panics / loops forever)
		dead := st.clone()
		dead.guard = False
		var zs []*Value
		res := fn.Signature.Results()
		for i := 0; i < res.Len(); i++ {
			zs = append(zs, x.zeroValue(res.At(i).Type()))
		}
		return dead, zs
	}
	var sts []*State
	for _, r := range fr.rets {
		sts = append(sts, r.st)
	}
	out := x.mergeStates(sts)
	n := len(fr.rets[0].vals)
	vals := make([]*Value, n)
	for i := 0; i < n; i++ {
		var acc *Value
		for j := len(fr.rets) - 1; j >= 0; j-- {
			v := fr.rets[j].vals[i]
			if acc == nil {
				acc = v
			} else {
				acc = iteValue(fr.rets[j].st.guard, v, acc)
			}
		}
		vals[i] = acc
	}
	if isRoot {
		// the contract is checked once, on the merged exit state (stable obligation names)
		x.checkEnsures(fr, out, vals, fn.Pos())
	}
	return out, vals
}

func (x *Exec) edgeCond(fr *Frame, from *ssa.BasicBlock, succIdx int) *Term {
	last := from.Instrs[len(from.Instrs)-1]
	if ifi, ok := last.(*ssa.If); ok {
		c := x.val(fr, ifi.Cond).Term
		if succIdx == 0 {
			return c
		}
		return Not(c)
	}
	return True
}

// inState computes the state at the start of block b from its (non-back-edge) predecessors.
func (x *Exec) inState(fr *Frame, b *ssa.BasicBlock, only map[*ssa.BasicBlock]bool) (*State, []*State, []int) {
	var sts []*State
	var predIdx []int
	for pi, p := range b.Preds {
		if b.Dominates(p) {
			continue // back edge
		}
		ps, ok := fr.blockOut[p]
		if !ok || (only != nil && !only[p]) {
			continue
		}
		// which successor index of p is b? (p may branch to b on both arms)
		cond := False
		for si, s := range p.Succs {
			if s == b {
				cond = Or(cond, x.edgeCond(fr, p, si))
			}
		}
		es := ps.clone()
		es.guard = x.name("g", And(ps.guard, cond))
		if es.guard.IsFalse() {
			continue
		}
		sts = append(sts, es)
		predIdx = append(predIdx, pi)
	}
	if len(sts) == 0 {
		return nil, nil, nil
	}
	return x.mergeStates(sts), sts, predIdx
}

func (x *Exec) runBlocks(fr *Frame, order []*ssa.BasicBlock, only map[*ssa.BasicBlock]bool, start *ssa.BasicBlock, startState *State) {
	for _, b := range order {
		if only != nil && !only[b] {
			continue
		}
		var st *State
		if b == start && start != nil {
			if startState == nil {
				continue // already executed by the caller
			}
			st = startState
		} else if b.Index == 0 && start == nil {
			st = startState.clone()
		} else {
			merged, edgeStates, predIdx := x.inState(fr, b, only)
			if merged == nil {
				continue // unreachable
			}
			if li, isLoop := fr.loops[b]; isLoop {
				st = x.enterLoop(fr, li, merged, edgeStates, predIdx)
			} else {
				st = merged
				// phis
				for _, in := range b.Instrs {
					phi, ok := in.(*ssa.Phi)
					if !ok {
						break
					}
					var acc *Value
					for k := len(edgeStates) - 1; k >= 0; k-- {
						v := x.val(fr, phi.Edges[predIdx[k]])
						v = x.coerce(v, phi.Type())
						if acc == nil {
							acc = v
						} else {
							acc = iteValue(edgeStates[k].guard, v, acc)
						}
					}
					fr.regs[phi] = acc
				}
			}
		}
		x.execBlock(fr, b, st)
	}
}

// coerce adapts nil constants to the expected type shape.
func (x *Exec) coerce(v *Value, t types.Type) *Value {
	if b, ok := v.T.(*types.Basic); ok && b.Kind() == types.UntypedNil {
		return x.zeroValue(t)
	}
	return v
}

func (x *Exec) enterLoop(fr *Frame, li *loopInfo, entry *State, edgeStates []*State, predIdx []int) *State {
	h := li.header
	var phis []*ssa.Phi
	for _, in := range h.Instrs {
		if phi, ok := in.(*ssa.Phi); ok {
			phis = append(phis, phi)
		} else {
			break
		}
	}
	// entry values of phis
	entryVals := map[ssa.Value]*Value{}
	for _, phi := range phis {
		var acc *Value
		for k := len(edgeStates) - 1; k >= 0; k-- {
			v := x.coerce(x.val(fr, phi.Edges[predIdx[k]]), phi.Type())
			if acc == nil {
				acc = v
			} else {
				acc = iteValue(edgeStates[k].guard, v, acc)
			}
		}
		entryVals[phi] = acc
	}
	invs := x.loopInvariants(fr, li)
	// discovery of the write set
	x.discover++
	savedFacts, savedObls := len(x.facts), len(x.obls)
	savedW, savedC := x.written, x.cellsW
	x.written, x.cellsW = map[string]bool{}, map[*Cell]bool{}
	savedWB := x.writeBases
	x.writeBases = map[string][]*Term{}
	savedFresh := x.freshRefs
	x.freshRefs = map[string]bool{}
	savedAllocBase, savedAllocOff := x.allocBase, x.allocOff
	declaredBefore := map[string]bool{}
	for _, n := range x.ctx.order {
		declaredBefore[n] = true
	}
	savedOut := map[*ssa.BasicBlock]*State{}
	for k, v := range fr.blockOut {
		savedOut[k] = v
	}
	savedRegs := map[ssa.Value]*Value{}
	for k, v := range fr.regs {
		savedRegs[k] = v
	}
	savedRets := len(fr.rets)
	ds := entry.clone()
	for _, phi := range phis {
		fr.regs[phi] = x.freshValue("d_"+phi.Name(), phi.Type(), ds.guard)
		if ev := entryVals[phi]; ev != nil && ev.K == KSlice && ev.Off != nil && ev.Off.Op == "int" && ev.Off.Int.Sign() == 0 && fr.regs[phi].K == KSlice {
			// optimistic: if offset 0 at the loop head gives offset 0 on every back edge (checked
			// below), the slice keeps offset 0 by induction
			fr.regs[phi].Off = IntLit(0)
		}
		if phi.Comment == "rangeindex" && fr.regs[phi].K == KScalar {
			x.facts = append(x.facts, Implies(ds.guard, Ge(fr.regs[phi].Term, IntLit(-1))))
		}
		if lo, ok := countingPhi(phi, li); ok && fr.regs[phi].K == KScalar {
			x.facts = append(x.facts, Implies(ds.guard, Ge(fr.regs[phi].Term, IntLit(lo))))
		}
	}
	li.headState = ds.clone() // discovery pass: nested loops may refer to this loop's head (athead)
	func() {
		x.execBlockGuarded(fr, h, ds)
		x.runBlocks(fr, fr.order, li.body, h, nil)
	}()
	wkeys, wcells := x.written, x.cellsW
	x.written, x.cellsW = savedW, savedC
	// a base term denotes the same object in every iteration when it is built from symbols that
	// existed before the loop and reads no heap array that the loop writes
	heapNameKey := map[string]string{}
	for k := range x.heapSort {
		heapNameKey[sanitize("H0_"+k)] = k
	}
	for k, t := range entry.heap {
		if t.Op == "const" {
			heapNameKey[t.Name] = k
		}
	}
	stableBase := func(b *Term) bool {
		syms := map[string]bool{}
		b.symbols(syms, map[*Term]bool{})
		for sname := range syms {
			if !declaredBefore[sname] {
				return false
			}
			if hk, isHeap := heapNameKey[sname]; isHeap && wkeys[hk] {
				return false
			}
		}
		return !termHasBoundVar(b)
	}
	// keys written only in objects allocated inside the loop, or in objects named by a term that
	// already existed before the loop, keep their pre-loop contents everywhere else
	freshOnly := map[string]bool{}
	preBases := map[string][]*Term{}
	for k := range wkeys {
		ok := true
		seenB := map[string]bool{}
		for _, b := range x.writeBases[k] {
			switch {
			case b != nil && b.Op == "const" && x.freshRefs[b.Name]:
			case b != nil && stableBase(b):
				if !seenB[b.String()] {
					seenB[b.String()] = true
					preBases[k] = append(preBases[k], b)
				}
			default:
				ok = false
			}
		}
		freshOnly[k] = ok && len(x.writeBases[k]) > 0
		if os.Getenv("GVC_DEBUG") != "" {
			var bs []string
			for _, b := range x.writeBases[k] {
				if b == nil {
					bs = append(bs, "<nil>")
				} else {
					bs = append(bs, trunc(b.String(), 80))
				}
			}
			fmt.Fprintf(os.Stderr, "DEBUG loop%d key=%s freshOnly=%v bases=%v\n", li.ordinal, k, freshOnly[k], bs)
		}
	}
	for k, bs := range x.writeBases {
		// a write to an object allocated in this loop is, for an enclosing loop, also a write to a fresh object
		savedWB[k] = append(savedWB[k], bs...)
	}
	x.writeBases = savedWB
	for n := range x.freshRefs {
		savedFresh[n] = true
	}
	x.freshRefs = savedFresh
	x.allocBase, x.allocOff = savedAllocBase, savedAllocOff
	// slice phis whose offset is 0 at entry and on every back edge keep offset 0
	zeroOff := map[*ssa.Phi]bool{}
	for _, phi := range phis {
		ev := entryVals[phi]
		if ev.K != KSlice || ev.Off.Op != "int" || ev.Off.Int.Sign() != 0 {
			continue
		}
		ok := true
		for pi, p := range h.Preds {
			if !h.Dominates(p) {
				continue
			}
			if _, done := fr.blockOut[p]; !done {
				continue
			}
			bv, have := fr.regs[phi.Edges[pi]]
			if !have {
				if c, isC := phi.Edges[pi].(*ssa.Const); isC {
					bv = x.coerce(x.constValue(c), phi.Type())
				} else {
					ok = false
					continue
				}
			}
			if phi.Edges[pi] == ssa.Value(phi) {
				continue
			}
			if bv.K != KSlice || bv.Off.Op != "int" || bv.Off.Int.Sign() != 0 {
				ok = false
			}
		}
		zeroOff[phi] = ok
	}
	for k := range wkeys {
		x.written[k] = true
	}
	for c := range wcells {
		x.cellsW[c] = true
	}
	fr.blockOut = savedOut
	fr.regs = savedRegs
	fr.rets = fr.rets[:savedRets]
	x.facts = x.facts[:savedFacts]
	x.obls = x.obls[:savedObls]
	x.discover--

	// inv.entry
	ov := fr.phiOv
	fr.phiOv = entryVals
	for _, inv := range invs {
		t := x.evalInvariant(fr, li, inv, entry)
		x.oblige(fr, entry, "inv.entry", fmt.Sprintf("loop%d", li.ordinal), labelOr(inv.Label, ""), t, h.Instrs[0].Pos(), inv.Src)
	}
	fr.phiOv = ov

	// havoc
	st := entry.clone()
	x.havocN++
	allocAtEntry := x.allocNow()
	epoch := x.allocEpoch()
	for _, phi := range phis {
		v := x.freshValue(fmt.Sprintf("L%d_%s", li.ordinal, phiName(phi)), phi.Type(), st.guard)
		if zeroOff[phi] {
			v.Off = IntLit(0)
		}
		x.boundRefs(v, epoch)
		fr.regs[phi] = v
		if phi.Comment == "rangeindex" && v.K == KScalar {
			// the hidden index of a range-over-slice loop starts at -1 and is only incremented
			x.facts = append(x.facts, Implies(st.guard, Ge(v.Term, IntLit(-1))))
		}
		if lo, ok := countingPhi(phi, li); ok && v.K == KScalar {
			// the counter of a `for i := c; ...; i++` loop starts at the constant c and is only incremented
			x.facts = append(x.facts, Implies(st.guard, Ge(v.Term, IntLit(lo))))
		}
	}
	keys := make([]string, 0, len(wkeys))
	for k := range wkeys {
		keys = append(keys, k)
	}
	sort.Strings(keys)
	for _, k := range keys {
		if k == "*" {
			x.havocAll(st)
			continue
		}
		pre := x.heapArr(st, k, x.heapSort[k])
		nh := x.ctx.Fresh(fmt.Sprintf("L%d_H_%s", li.ordinal, shortKey(k)), x.heapSort[k])
		st.heap[k] = nh
		x.heapTypeFacts(k, nh)
		x.refBound(nh, epoch)
		if freshOnly[k] {
			// the loop writes this array only in objects it allocates itself
			r := BoundVar("r", RefSort)
			cond := []*Term{Le(x.ctx.App("allocId", IntSort, r), allocAtEntry)}
			for _, b := range preBases[k] {
				cond = append(cond, Neq(r, b))
			}
			x.facts = append(x.facts, Forall([]*Term{r}, Implies(And(cond...), Eq(Select(nh, r), Select(pre, r))), []*Term{Select(nh, r)}))
		}
	}
	var cl []*Cell
	for c := range wcells {
		cl = append(cl, c)
	}
	sort.Slice(cl, func(i, j int) bool { return cl[i].ID < cl[j].ID })
	for _, c := range cl {
		if cur, live := st.cells[c]; live {
			if c.T == nil {
				// ghost cell (iterator 'seen' set): fresh term of the same sort
				st.cells[c] = &Value{K: KScalar, Term: x.ctx.Fresh(fmt.Sprintf("L%d_%s", li.ordinal, c.Name), cur.Term.Sort)}
				continue
			}
			st.cells[c] = x.freshValue(fmt.Sprintf("L%d_%s", li.ordinal, c.Name), c.T, st.guard)
		} else if c.T != nil && strings.HasPrefix(c.Name, "ret$") {
			// result ghost of a callee first called inside this loop: at the head of a later iteration it holds the
			// previous iteration's result - an arbitrary value the invariants may speak about
			st.cells[c] = x.freshValue(fmt.Sprintf("L%d_%s", li.ordinal, c.Name), c.T, st.guard)
		}
	}
	// map iteration: the keys already yielded are keys of the map (holds by construction of Next as
	// long as the loop does not write the map being ranged over)
	for _, in := range h.Instrs {
		nx, ok := in.(*ssa.Next)
		if !ok {
			continue
		}
		it := fr.iters[nx.Iter]
		if it == nil || it.kind != "map" {
			continue
		}
		mi := x.mapInfoOf(it.mapT)
		if wkeys["MP:"+mi.key] {
			continue
		}
		seenV, live := st.cells[it.cell]
		if !live {
			continue
		}
		bv := make([]*Term, len(mi.kLeaves))
		for i, l := range mi.kLeaves {
			bv[i] = BoundVar(fmt.Sprintf("k%d", i), l.Sort)
		}
		present := x.mapPresent(st, it.mapT, it.mapR)
		x.assume(st, Forall(bv, Implies(selectN(seenV.Term, bv), And(Neq(it.mapR, x.null()), selectN(present, bv))), []*Term{selectN(seenV.Term, bv)}))
		// a non-empty map has a key (witness constant): lets "the loop ran at least once" be derived from len(m) > 0
		wit := make([]*Term, len(mi.kLeaves))
		for i, l := range mi.kLeaves {
			wit[i] = x.ctx.Fresh(fmt.Sprintf("L%d_somekey%d", li.ordinal, i), l.Sort)
		}
		x.assume(st, Implies(And(Neq(it.mapR, x.null()), Gt(x.mapLen(st, it.mapT, it.mapR), IntLit(0))), selectN(present, wit)))
	}
	for _, inv := range invs {
		x.assume(st, x.evalInvariant(fr, li, inv, st))
	}
	li.headState = st.clone() // for `step` clauses (old() = this state)
	// loop variants: remember their value at the loop head
	if c := x.contractFor(fr.fn); c != nil && len(c.Decreases[li.ordinal]) > 0 {
		li.variant0 = nil
		for _, d := range c.Decreases[li.ordinal] {
			li.variant0 = append(li.variant0, x.evalVariant(fr, li, d, st))
		}
	}
	return st
}

// evalVariant evaluates an integer loop variant in state st (variables as at the loop head).
func (x *Exec) evalVariant(fr *Frame, li *loopInfo, c Clause, st *State) *Term {
	vars := map[string]*Value{}
	env := &SpecEnv{x: x, vars: vars, cur: st, old: fr.entry, pkg: x.pkgOfFn(fr.fn), fr: fr, li: li, at: li.header}
	var out *Term
	f := func() *Term {
		return x.guardedEval(func() *Term {
			v := env.eval(c.E)
			if v.K != KScalar || v.Term.Sort.Kind != SInt {
				specFail("decreases needs an integer expression")
			}
			out = v.Term
			return True
		}, x.contractFor(fr.fn), c)
	}
	if x.lenientLoops {
		x.lenientLoopClause(f)
	} else {
		f()
	}
	return out
}

func phiName(p *ssa.Phi) string {
	if p.Comment != "" {
		return p.Comment
	}
	return p.Name()
}

func labelOr(a, b string) string {
	if a != "" {
		return a
	}
	return b
}

func (x *Exec) havocAll(st *State) {
	x.havocN++
	st.havocID = x.havocN
	epoch := x.allocEpoch()
	for k, s := range x.heapSort {
		nh := x.ctx.Fresh("Hv_"+shortKey(k), s)
		st.heap[k] = nh
		x.heapTypeFacts(k, nh)
		x.refBound(nh, epoch)
	}
	x.note("a call without contract havocs the whole heap")
}

// execBlockGuarded executes the non-phi instructions of the loop header during discovery.
func (x *Exec) execBlockGuarded(fr *Frame, b *ssa.BasicBlock, st *State) { x.execBlock(fr, b, st) }

func (x *Exec) execBlock(fr *Frame, b *ssa.BasicBlock, st *State) {
	for _, in := range b.Instrs {
		if _, ok := in.(*ssa.Phi); ok {
			continue
		}
		x.execInstr(fr, b, st, in)
	}
	fr.blockOut[b] = st
	// back edges: invariant preservation
	for si, s := range b.Succs {
		if s.Dominates(b) {
			li := fr.loops[s]
			if li == nil {
				continue
			}
			es := st.clone()
			es.guard = x.name("g", And(st.guard, x.edgeCond(fr, b, si)))
			// phi values along this edge
			ov := map[ssa.Value]*Value{}
			pi := -1
			for k, p := range s.Preds {
				if p == b {
					pi = k
				}
			}
			for _, in := range s.Instrs {
				phi, ok := in.(*ssa.Phi)
				if !ok {
					break
				}
				ov[phi] = x.coerce(x.val(fr, phi.Edges[pi]), phi.Type())
			}
			saved := fr.phiOv
			fr.phiOv = ov
			for _, inv := range x.loopInvariants(fr, li) {
				t := x.evalInvariant(fr, li, inv, es)
				x.oblige(fr, es, "inv.preserved", fmt.Sprintf("loop%d", li.ordinal), labelOr(inv.Label, ""), t, s.Instrs[0].Pos(), inv.Src)
			}
			if c := x.contractFor(fr.fn); c != nil && li.headState != nil {
				for _, sc := range c.Steps[li.ordinal] {
					env := &SpecEnv{x: x, vars: map[string]*Value{}, cur: es, old: li.headState, pkg: x.pkgOfFn(fr.fn), fr: fr, li: li, at: li.header, stepOld: true}
					sc := sc
					f := func() *Term { return x.guardedEval(func() *Term { return env.evalBool(sc.E) }, c, sc) }
					var t *Term
					if x.lenientLoops {
						t = x.lenientLoopClause(f)
					} else {
						t = f()
					}
					x.oblige(fr, es, "inv.preserved", fmt.Sprintf("loop%d", li.ordinal), "step:"+labelOr(sc.Label, ""), t, s.Instrs[0].Pos(), sc.Src)
				}
			}
			if c := x.contractFor(fr.fn); c != nil && len(li.variant0) == len(c.Decreases[li.ordinal]) {
				for k, d := range c.Decreases[li.ordinal] {
					v1 := x.evalVariant(fr, li, d, es)
					if v1 != nil && li.variant0[k] != nil {
						x.oblige(fr, es, "decreases", fmt.Sprintf("loop%d", li.ordinal), labelOr(d.Label, ""), And(Ge(li.variant0[k], IntLit(0)), Lt(v1, li.variant0[k])), s.Instrs[0].Pos(), d.Src)
					}
				}
			}
			fr.phiOv = saved
		}
	}
}

func (x *Exec) loopInvariants(fr *Frame, li *loopInfo) []Clause {
	c := x.contractFor(fr.fn)
	if c == nil {
		return nil
	}
	return c.Loops[li.ordinal]
}

func (x *Exec) contractFor(fn *ssa.Function) *Contract {
	for _, k := range contractKeys(fn) {
		if c, ok := x.db.Contracts[k]; ok {
			return c
		}
	}
	return nil
}

// contractKeys lists the names under which a contract for fn may be registered.
func contractKeys(fn *ssa.Function) []string {
	if fn == nil {
		return nil
	}
	if fn.Origin() != nil && fn.Origin() != fn {
		// generic instantiation: "name[T]" then the generic name
		return append([]string{funcDisplayName(fn)}, contractKeys(fn.Origin())...)
	}
	disp := funcDisplayName(fn)
	keys := []string{disp}
	if fn.Pkg != nil {
		keys = append([]string{fn.Pkg.Pkg.Name() + "." + disp}, keys...)
	}
	return keys
}

func (x *Exec) instrText(in ssa.Instruction) string {
	if v, ok := in.(ssa.Value); ok {
		return v.Name() + " = " + in.String()
	}
	return in.String()
}

// calledNames lists the callees F used as called(F) in a contract's ensures clauses.
func calledNames(c *Contract, fname string) []string {
	seen := map[string]bool{}
	var out []string
	var walk func(e *Expr)
	walk = func(e *Expr) {
		if e == nil {
			return
		}
		if e.Op == "call" && e.Args[0].Op == "ident" && e.Args[0].Name == fname && len(e.Args) >= 2 {
			n := exprTypeName(e.Args[1])
			if e.Args[1].Op == "str" {
				n = e.Args[1].Name
			}
			if !seen[n] {
				seen[n] = true
				out = append(out, n)
			}
		}
		for _, a := range e.Args {
			walk(a)
		}
	}
	for _, cl := range c.Ensures {
		walk(cl.E)
	}
	for _, cc := range c.Calls {
		walk(cc.C.E)
	}
	for _, m := range []map[int][]Clause{c.Loops, c.Steps} {
		var ns []int
		for n := range m {
			ns = append(ns, n)
		}
		sort.Ints(ns)
		for _, n := range ns {
			for _, cl := range m[n] {
				walk(cl.E)
			}
		}
	}
	return out
}

var propPrefix = regexp.MustCompile(`^(C[0-9]{2,3})\.`)

// attribute decides which properties an obligation counts for: a label prefix "C09." wins;
// frame obligations go to the contract's frameprop; everything else to the contract's properties.
func (x *Exec) attribute(fr *Frame, kind, label string) []string {
	if m := propPrefix.FindStringSubmatch(label); m != nil {
		return append([]string{m[1]}, x.db.Relies[m[1]]...)
	}
	c := fr.contract
	if c == nil && x.rootFrame != nil {
		c = x.rootFrame.contract
	}
	if c == nil {
		return nil
	}
	if kind == "frame" && len(c.FrameProps) > 0 {
		return c.FrameProps
	}
	return propsFor(c.Props, kind)
}

// safetyKinds: obligation kinds that say "this operation cannot panic".
var safetyKinds = map[string]bool{"nil": true, "index": true, "slice": true, "nilmap": true, "nilfunc": true, "assert": true, "panic": true, "div": true, "call.pre": true, "conv": true, "makeslice": true, "overflow": true}

// lockKinds: lock-discipline obligations (monitors).
var lockKinds = map[string]bool{"lock": true, "monitor": true, "sync": true}

// propsFor: a contract's property list may qualify an entry as "Cxx:safety" - only the
// no-panic obligations of the function count towards that property.
func propsFor(props []string, kind string) []string {
	var out []string
	for _, p := range props {
		if strings.HasSuffix(p, ":safety") {
			if safetyKinds[kind] {
				out = append(out, strings.TrimSuffix(p, ":safety"))
			}
			continue
		}
		out = append(out, p)
	}
	return out
}

// globalRef is the address of a package-level variable: distinct variables have distinct,
// non-null addresses that existed before the function was entered.
func (x *Exec) globalRef(name string) *Term {
	if x.globalRefs == nil {
		x.globalRefs = map[string]*Term{}
	}
	if t, ok := x.globalRefs[name]; ok {
		return t
	}
	t := x.ctx.Const("global$"+sanitize(name), RefSort)
	t.Distinct = 2
	x.globalRefs[name] = t
	x.perm = append(x.perm, Neq(t, x.null()),
		Eq(x.ctx.App("globalId", IntSort, t), IntLit(int64(len(x.globalRefs)))),
		Le(x.ctx.App("allocId", IntSort, t), IntLit(0)))
	return t
}

// countingPhi recognises the counter of a counting loop: an integer phi at the loop head with exactly two
// incoming values, a constant from outside the loop and itself plus a positive constant from inside. It returns the
// initial constant (a lower bound of the counter at every loop head, by induction).
func countingPhi(phi *ssa.Phi, li *loopInfo) (int64, bool) {
	if len(phi.Edges) != 2 {
		return 0, false
	}
	if b, ok := phi.Type().Underlying().(*types.Basic); !ok || b.Info()&types.IsInteger == 0 {
		return 0, false
	}
	var init *ssa.Const
	var step *ssa.BinOp
	for _, e := range phi.Edges {
		switch v := e.(type) {
		case *ssa.Const:
			init = v
		case *ssa.BinOp:
			step = v
		}
	}
	if init == nil || step == nil || init.Value == nil || step.Op != token.ADD || step.X != ssa.Value(phi) {
		return 0, false
	}
	inc, ok := step.Y.(*ssa.Const)
	if !ok || inc.Value == nil || inc.Int64() <= 0 {
		return 0, false
	}
	if li != nil && li.body != nil && !li.body[step.Block()] {
		return 0, false
	}
	return init.Int64(), true
}

// phiStep: the constant a counting phi is incremented by.
func phiStep(phi *ssa.Phi) (int64, bool) {
	for _, e := range phi.Edges {
		if b, ok := e.(*ssa.BinOp); ok && b.Op == token.ADD && b.X == ssa.Value(phi) {
			if c, ok := b.Y.(*ssa.Const); ok && c.Value != nil {
				return c.Int64(), true
			}
		}
	}
	return 0, false
}

// loopKind classifies a loop by the shape of its header: the loop clauses of a contract are written for a kind.
func loopKind(h *ssa.BasicBlock, li *loopInfo) string {
	for _, in := range h.Instrs {
		if phi, ok := in.(*ssa.Phi); ok {
			if phi.Comment == "rangeindex" {
				return "indexed"
			}
			if lo, ok := countingPhi(phi, li); ok && lo == 0 {
				if st, ok := phiStep(phi); ok && st == 1 {
					return "indexed"
				}
			}
			continue
		}
		if nx, ok := in.(*ssa.Next); ok {
			if nx.IsString {
				return "string-range"
			}
			return "map-range"
		}
	}
	return "other"
}
