package main

// Built-in background axioms, by group. Each group names the symbols it needs declared.

type axiomGroup struct {
	needs []Decl
	text  string
	deps  []string
}

var arrII = ArraySort(IntSort, IntSort)

var axiomGroups = map[string]axiomGroup{
	"str": {
		needs: []Decl{{"slen", []*Sort{StrSort}, IntSort}, {"sbytes", []*Sort{StrSort}, arrII}},
		text: `(assert (forall ((s Str)) (! (>= (slen s) 0) :pattern ((slen s)))))
(assert (forall ((s Str) (i Int)) (! (and (<= 0 (select (sbytes s) i)) (<= (select (sbytes s) i) 255)) :pattern ((select (sbytes s) i)))))
`},
	"substr": {
		deps:  []string{"str"},
		needs: []Decl{{"substr", []*Sort{StrSort, IntSort, IntSort}, StrSort}},
		text: `(assert (forall ((s Str) (a Int) (b Int)) (! (=> (and (<= 0 a) (<= a b) (<= b (slen s))) (= (slen (substr s a b)) (- b a))) :pattern ((substr s a b)))))
(assert (forall ((s Str) (a Int) (b Int) (i Int)) (! (=> (and (<= 0 a) (<= a b) (<= b (slen s)) (<= 0 i) (< i (- b a))) (= (select (sbytes (substr s a b)) i) (select (sbytes s) (+ a i)))) :pattern ((select (sbytes (substr s a b)) i)))))
(assert (forall ((s Str)) (! (= (substr s 0 (slen s)) s) :pattern ((substr s 0 (slen s))))))
`},
	"mkstr": {
		deps:  []string{"str"},
		needs: []Decl{{"mkstr", []*Sort{arrII, IntSort, IntSort}, StrSort}},
		text: `(assert (forall ((s Str)) (! (= (mkstr (sbytes s) 0 (slen s)) s) :pattern ((mkstr (sbytes s) 0 (slen s))))))
`},
	"concat": {
		deps:  []string{"str"},
		needs: []Decl{{"sconcat", []*Sort{StrSort, StrSort}, StrSort}},
		text: `(assert (forall ((a Str) (b Str)) (! (= (slen (sconcat a b)) (+ (slen a) (slen b))) :pattern ((sconcat a b)))))
(assert (forall ((a Str) (b Str) (i Int)) (! (=> (and (<= 0 i) (< i (+ (slen a) (slen b)))) (= (select (sbytes (sconcat a b)) i) (ite (< i (slen a)) (select (sbytes a) i) (select (sbytes b) (- i (slen a)))))) :pattern ((select (sbytes (sconcat a b)) i)))))
`},
	"strjoin": {
		deps:  []string{"substr", "concat"},
		needs: []Decl{{"charStr", []*Sort{IntSort}, StrSort}},
		text: `(assert (forall ((s Str) (a Int) (b Int) (c Int)) (! (=> (and (<= 0 a) (<= a b) (<= b c) (<= c (slen s))) (= (sconcat (substr s a b) (substr s b c)) (substr s a c))) :pattern ((sconcat (substr s a b) (substr s b c))))))
(assert (forall ((s Str) (i Int)) (! (=> (and (<= 0 i) (< i (slen s))) (= (substr s i (+ i 1)) (charStr (select (sbytes s) i)))) :pattern ((substr s i (+ i 1))))))
(assert (forall ((c Int)) (! (and (= (slen (charStr c)) 1) (=> (and (<= 0 c) (<= c 255)) (= (select (sbytes (charStr c)) 0) c))) :pattern ((charStr c)))))
`},
	"strcmp": {
		deps:  []string{"str"},
		needs: []Decl{{"strcmp", []*Sort{StrSort, StrSort}, IntSort}},
		text: `(assert (forall ((a Str) (b Str)) (! (and (<= (- 1) (strcmp a b)) (<= (strcmp a b) 1) (= (strcmp a b) (- (strcmp b a))) (= (= (strcmp a b) 0) (= a b))) :pattern ((strcmp a b)))))
(assert (forall ((a Str) (b Str) (c Str)) (! (=> (and (<= (strcmp a b) 0) (<= (strcmp b c) 0)) (<= (strcmp a c) 0)) :pattern ((strcmp a b) (strcmp b c)))))
`},
	"prefix": {
		deps:  []string{"substr"},
		needs: []Decl{{"hasPrefix", []*Sort{StrSort, StrSort}, BoolSort}, {"hasSuffix", []*Sort{StrSort, StrSort}, BoolSort}},
		text: `(assert (forall ((s Str) (p Str)) (! (= (hasPrefix s p) (and (>= (slen s) (slen p)) (= (substr s 0 (slen p)) p))) :pattern ((hasPrefix s p)))))
(assert (forall ((s Str) (p Str)) (! (= (hasSuffix s p) (and (>= (slen s) (slen p)) (= (substr s (- (slen s) (slen p)) (slen s)) p))) :pattern ((hasSuffix s p)))))
`},
	"indexbyte": {
		deps:  []string{"str", "substr"},
		needs: []Decl{{"indexByte", []*Sort{StrSort, IntSort}, IntSort}, {"lastIndexByte", []*Sort{StrSort, IntSort}, IntSort}},
		text: `(assert (forall ((s Str) (c Int)) (! (and (<= (- 1) (indexByte s c)) (< (indexByte s c) (slen s)) (=> (>= (indexByte s c) 0) (= (select (sbytes s) (indexByte s c)) c))) :pattern ((indexByte s c)))))
(assert (forall ((s Str) (c Int) (j Int)) (! (=> (and (<= 0 j) (< j (slen s)) (= (select (sbytes s) j) c)) (and (<= 0 (indexByte s c)) (<= (indexByte s c) j))) :pattern ((indexByte s c) (select (sbytes s) j)))))
(assert (forall ((s Str) (c Int) (a Int)) (! (=> (and (<= 0 a) (<= a (slen s))) (and (=> (>= (indexByte (substr s a (slen s)) c) 0) (>= (indexByte s c) 0)) (=> (>= (indexByte s c) a) (= (indexByte (substr s a (slen s)) c) (- (indexByte s c) a))))) :pattern ((indexByte (substr s a (slen s)) c)))))
(assert (forall ((s Str) (c Int)) (! (and (<= (- 1) (lastIndexByte s c)) (< (lastIndexByte s c) (slen s)) (=> (>= (lastIndexByte s c) 0) (= (select (sbytes s) (lastIndexByte s c)) c))) :pattern ((lastIndexByte s c)))))
(assert (forall ((s Str) (c Int) (j Int)) (! (=> (and (<= 0 j) (< j (slen s)) (= (select (sbytes s) j) c)) (>= (lastIndexByte s c) j)) :pattern ((lastIndexByte s c) (select (sbytes s) j)))))
`},
	"alloc": {
		needs: []Decl{{"allocId", []*Sort{RefSort}, IntSort}, {"null", nil, RefSort}},
		text:  "(assert (<= (allocId null) 0))\n",
	},
}
