package main

// Ghost accounting for the little concurrency the repository uses (a buffered job queue, a
// WaitGroup, goroutines started in a loop). Nothing here explores schedules; the obligations are
// the classical local conditions under which these primitives cannot block or panic:
//
//   ch <- v          obligation: the channel is not closed, and the number of sends so far is below
//                    its capacity (a send that never has to wait for a receiver cannot deadlock)
//   close(ch)        obligation: not already closed
//   go f(args)       f must have a contract; each `signals wg` clause of it (a *sync.WaitGroup the
//                    goroutine calls Done() on exactly once - an obligation of f's own verification)
//                    counts one spawned signaller for that WaitGroup; afterwards all non-ghost heap
//                    is arbitrary (the goroutine runs at any time)
//   wg.Add(n)        counts n expected signals;  wg.Done() counts one signal given
//   wg.Wait()        obligation: expected signals == spawned signallers (given that goroutines
//                    terminate - assumed - Wait returns); afterwards the heap is arbitrary again
//   <-ch             an arbitrary value (and an arbitrary ok); termination of receive loops is
//                    not proved

import (
	"go/token"
	"go/types"

	"golang.org/x/tools/go/ssa"
)

func (x *Exec) ghostArr(st *State, key string, val *Sort) *Term {
	return x.heapArr(st, key, ArraySort(RefSort, val))
}

func (x *Exec) ghostGet(st *State, key string, val *Sort, ref *Term) *Term {
	return Select(x.ghostArr(st, key, val), ref)
}

func (x *Exec) ghostSet(st *State, key string, val *Sort, ref, v *Term) {
	st.heap[key] = Store(x.ghostArr(st, key, val), ref, v)
	x.noteWrite(key, ref)
}

const (
	gChCap    = "G:chan/cap"
	gChSent   = "G:chan/sent"
	gChClosed = "G:chan/closed"
	gWgAdd    = "G:wg/expected"
	gWgSpawn  = "G:wg/spawned"
	gWgDone   = "G:wg/done"
)

const concurrencyAssumption = "goroutines, channels, WaitGroups: local non-blocking conditions only (send below capacity, Wait matched by spawned signallers); goroutines are assumed to terminate; no schedule is explored"

func (x *Exec) makeChan(fr *Frame, st *State, in *ssa.MakeChan) *Value {
	x.trusted[concurrencyAssumption] = true
	n := x.val(fr, in.Size).Term
	x.safetyOblige(fr, st, "makeslice", "channel capacity out of range", Ge(n, IntLit(0)), in.Pos())
	ref := x.freshRef(st, "chan")
	x.ghostSet(st, gChCap, IntSort, ref, n)
	x.ghostSet(st, gChSent, IntSort, ref, IntLit(0))
	x.ghostSet(st, gChClosed, BoolSort, ref, False)
	return scalar(in.Type(), ref)
}

func (x *Exec) chanSend(fr *Frame, st *State, in *ssa.Send) {
	x.trusted[concurrencyAssumption] = true
	ch := x.val(fr, in.Chan).Term
	x.oblige(fr, st, "sync", "", "send-on-open-channel", Not(x.ghostGet(st, gChClosed, BoolSort, ch)), in.Pos(), "send on a closed channel panics")
	x.oblige(fr, st, "sync", "", "send-cannot-block", And(Neq(ch, x.null()), Lt(x.ghostGet(st, gChSent, IntSort, ch), x.ghostGet(st, gChCap, IntSort, ch))), in.Pos(), "a send beyond the channel's capacity waits for a receiver (none is known to exist): possible deadlock")
	x.ghostSet(st, gChSent, IntSort, ch, Add(x.ghostGet(st, gChSent, IntSort, ch), IntLit(1)))
}

func (x *Exec) chanClose(fr *Frame, st *State, ch *Term, pos token.Pos) {
	x.trusted[concurrencyAssumption] = true
	x.oblige(fr, st, "sync", "", "close-once", And(Neq(ch, x.null()), Not(x.ghostGet(st, gChClosed, BoolSort, ch))), pos, "close of a nil or closed channel panics")
	x.ghostSet(st, gChClosed, BoolSort, ch, True)
}

func (x *Exec) chanRecv(fr *Frame, st *State, in *ssa.UnOp) *Value {
	x.trusted[concurrencyAssumption] = true
	et := under(in.X.Type()).(*types.Chan).Elem()
	v := x.freshValue("recv", et, st.guard)
	x.boundRefs(v, x.allocNow())
	if in.CommaOk {
		ok := x.freshValue("recv_ok", tBool, st.guard)
		return &Value{K: KTuple, T: in.Type(), Fields: []*Value{v, ok}}
	}
	return v
}

// havocShared: everything another goroutine could have written (all of the heap except the ghost
// synchronisation state, which only changes through the primitives modelled here).
func (x *Exec) havocShared(st *State) {
	saved := map[string]*Term{}
	for k, v := range st.heap {
		if len(k) > 2 && k[:2] == "G:" {
			saved[k] = v
		}
	}
	x.havocAll(st)
	for k, v := range saved {
		st.heap[k] = v
	}
	// ghost arrays first read later still denote the entry state (they only change through the
	// primitives modelled here)
	x.keepGhost = true
}

func (x *Exec) goStmt(fr *Frame, st *State, in *ssa.Go) {
	x.trusted[concurrencyAssumption] = true
	c := in.Common()
	var fn *ssa.Function
	var bind []*Value
	switch v := c.Value.(type) {
	case *ssa.Function:
		fn = v
	default:
		fv := x.val(fr, c.Value)
		if fv.K == KFunc && fv.Fn == nil && fv.Term != nil && fv.Term.Op == "const" {
			if cv, ok := x.closures[fv.Term.Name]; ok {
				fv = cv
			}
		}
		if fv.K == KFunc && fv.Fn != nil {
			fn, bind = fv.Fn, fv.Bind
		}
	}
	if fn == nil {
		x.unmod["go statement on a function value of unknown identity"] = true
		x.havocShared(st)
		return
	}
	var args []*Value
	for _, a := range c.Args {
		args = append(args, x.val(fr, a))
	}
	cc := x.contractFor(fn)
	if cc == nil {
		x.unmod["goroutine "+funcDisplayName(fn)+" has no contract"] = true
	} else {
		for _, sg := range cc.Signals {
			if p := x.signalTarget(fn, bind, args, sg, st, cc); p != nil {
				x.ghostSet(st, gWgSpawn, IntSort, p, Add(x.ghostGet(st, gWgSpawn, IntSort, p), IntLit(1)))
			}
		}
	}
	x.havocShared(st)
}

// signalTarget evaluates a `signals` expression (a *sync.WaitGroup) of fn with the given bindings.
func (x *Exec) signalTarget(fn *ssa.Function, bind, args []*Value, sg Clause, st *State, c *Contract) *Term {
	vars := map[string]*Value{}
	for i, p := range fn.Params {
		if i < len(args) {
			vars[p.Name()] = args[i]
		}
	}
	for i, fv := range fn.FreeVars {
		if i >= len(bind) {
			break
		}
		v := bind[i]
		if v.K == KPtr {
			if pt, ok := fv.Type().(*types.Pointer); ok {
				if _, isPP := pt.Elem().(*types.Pointer); isPP {
					vars[fv.Name()] = x.load(st, v.P, pt.Elem())
					continue
				}
			}
		}
		vars[fv.Name()] = v
	}
	env := &SpecEnv{x: x, vars: vars, cur: st, old: st, pkg: x.pkgOfFn(fn)}
	var out *Term
	x.guardedEval(func() *Term {
		v := env.eval(sg.E)
		if v.K != KPtr || v.P.Cell != nil {
			specFail("signals needs a *sync.WaitGroup expression")
		}
		out = ptrAsRef(v.P)
		return True
	}, c, sg)
	return out
}

// waitGroupCall models (*sync.WaitGroup).Add / Done / Wait. Returns true when handled.
func (x *Exec) waitGroupCall(fr *Frame, st *State, fn *ssa.Function, args []*Value, pos token.Pos) bool {
	name := fn.String()
	if name != "(*sync.WaitGroup).Add" && name != "(*sync.WaitGroup).Done" && name != "(*sync.WaitGroup).Wait" {
		return false
	}
	if len(args) < 1 || args[0].K != KPtr || args[0].P.Cell != nil {
		return false
	}
	x.trusted[concurrencyAssumption] = true
	wg := ptrAsRef(args[0].P)
	switch name {
	case "(*sync.WaitGroup).Add":
		x.ghostSet(st, gWgAdd, IntSort, wg, Add(x.ghostGet(st, gWgAdd, IntSort, wg), args[1].Term))
	case "(*sync.WaitGroup).Done":
		x.ghostSet(st, gWgDone, IntSort, wg, Add(x.ghostGet(st, gWgDone, IntSort, wg), IntLit(1)))
	case "(*sync.WaitGroup).Wait":
		x.oblige(fr, st, "sync", "", "wait-returns", Eq(x.ghostGet(st, gWgAdd, IntSort, wg), x.ghostGet(st, gWgSpawn, IntSort, wg)), pos, "Wait() returns only if every expected signal is given: Add() total must equal the number of spawned goroutines that call Done()")
		x.havocShared(st)
	}
	return true
}
