package main

// Terms and sorts of the SMT-LIB fragment gvc emits (UF + arrays + LIA + quantifiers).

import (
	"fmt"
	"math/big"
	"sort"
	"strings"
)

type SortKind int

const (
	SInt SortKind = iota
	SBool
	SReal
	SStr // uninterpreted sort Str (Go strings)
	SRef // uninterpreted sort Ref (heap references, interface payloads, func identities)
	SArray
)

type Sort struct {
	Kind     SortKind
	Key, Val *Sort
}

var (
	IntSort  = &Sort{Kind: SInt}
	BoolSort = &Sort{Kind: SBool}
	RealSort = &Sort{Kind: SReal}
	StrSort  = &Sort{Kind: SStr}
	RefSort  = &Sort{Kind: SRef}
)

var arraySorts = map[string]*Sort{}

func ArraySort(k, v *Sort) *Sort {
	key := k.String() + "->" + v.String()
	if s, ok := arraySorts[key]; ok {
		return s
	}
	s := &Sort{Kind: SArray, Key: k, Val: v}
	arraySorts[key] = s
	return s
}

func (s *Sort) String() string {
	switch s.Kind {
	case SInt:
		return "Int"
	case SBool:
		return "Bool"
	case SReal:
		return "Real"
	case SStr:
		return "Str"
	case SRef:
		return "Ref"
	case SArray:
		return "(Array " + s.Key.String() + " " + s.Val.String() + ")"
	}
	return "?"
}

func sameSort(a, b *Sort) bool { return a.String() == b.String() }

// Term is an immutable SMT term. Op is one of:
//
//	"const" (Name = declared symbol), "var" (bound variable, Name), "int" (Int literal), "real",
//	"true", "false", "app" (Name = UF, Args), and the SMT built-ins
//	and or not => ite = distinct < <= > >= + - * div mod select store forall exists
type Term struct {
	Op    string
	Name  string
	Args  []*Term
	Sort  *Sort
	Int   *big.Int
	Bound []*Term   // forall/exists: bound variables
	Pats  [][]*Term // forall/exists: patterns
	// Distinct != 0: a constant known to differ from every other constant of the same class
	// (1: string literals with different contents, 2: objects allocated during the execution)
	Distinct int
	str      string
}

func knownDistinct(a, b *Term) bool {
	return a.Op == "const" && b.Op == "const" && a.Distinct != 0 && a.Distinct == b.Distinct && a.Name != b.Name
}

var (
	True  = &Term{Op: "true", Sort: BoolSort}
	False = &Term{Op: "false", Sort: BoolSort}
)

// Decl is a declared symbol.
type Decl struct {
	Name string
	Args []*Sort
	Res  *Sort
}

// Ctx collects declarations and global (definitional) facts for one function's verification.
type Ctx struct {
	decls   map[string]*Decl
	order   []string
	counter map[string]int
}

func NewCtx() *Ctx {
	return &Ctx{decls: map[string]*Decl{}, counter: map[string]int{}}
}

func sanitize(s string) string {
	var b strings.Builder
	for _, r := range s {
		switch {
		case r >= 'a' && r <= 'z', r >= 'A' && r <= 'Z', r >= '0' && r <= '9', r == '_', r == '.', r == '!', r == '$':
			b.WriteRune(r)
		default:
			b.WriteRune('_')
		}
	}
	return b.String()
}

// Declare registers (idempotently) a symbol.
func (c *Ctx) Declare(name string, args []*Sort, res *Sort) *Decl {
	if d, ok := c.decls[name]; ok {
		if !sameSort(d.Res, res) || len(d.Args) != len(args) {
			panic(fmt.Sprintf("symbol %s redeclared with different signature: %v -> %v vs %v -> %v", name, d.Args, d.Res, args, res))
		}
		return d
	}
	d := &Decl{Name: name, Args: args, Res: res}
	c.decls[name] = d
	c.order = append(c.order, name)
	return d
}

// Fresh returns a fresh constant with a readable prefix.
func (c *Ctx) Fresh(prefix string, s *Sort) *Term {
	prefix = sanitize(prefix)
	c.counter[prefix]++
	name := fmt.Sprintf("%s!%d", prefix, c.counter[prefix])
	c.Declare(name, nil, s)
	return &Term{Op: "const", Name: name, Sort: s}
}

// Const returns the (shared) constant of that name.
func (c *Ctx) Const(name string, s *Sort) *Term {
	name = sanitize(name)
	c.Declare(name, nil, s)
	return &Term{Op: "const", Name: name, Sort: s}
}

// App applies an uninterpreted function, declaring it on first use.
func (c *Ctx) App(name string, res *Sort, args ...*Term) *Term {
	name = sanitize(name)
	as := make([]*Sort, len(args))
	for i, a := range args {
		as[i] = a.Sort
	}
	d := c.Declare(name, as, res)
	for i, a := range args {
		if !sameSort(d.Args[i], a.Sort) {
			panic(fmt.Sprintf("UF %s arg %d: sort %s, declared %s", name, i, a.Sort, d.Args[i]))
		}
	}
	if len(args) == 0 {
		return &Term{Op: "const", Name: name, Sort: res}
	}
	return &Term{Op: "app", Name: name, Args: args, Sort: res}
}

func IntLit(n int64) *Term    { return &Term{Op: "int", Int: big.NewInt(n), Sort: IntSort} }
func BigLit(n *big.Int) *Term { return &Term{Op: "int", Int: new(big.Int).Set(n), Sort: IntSort} }
func BoolLit(b bool) *Term {
	if b {
		return True
	}
	return False
}
func BoundVar(name string, s *Sort) *Term { return &Term{Op: "var", Name: sanitize(name), Sort: s} }

func (t *Term) IsTrue() bool  { return t.Op == "true" }
func (t *Term) IsFalse() bool { return t.Op == "false" }
func (t *Term) IsLit() bool   { return t.Op == "int" }

func mk(op string, s *Sort, args ...*Term) *Term { return &Term{Op: op, Args: args, Sort: s} }

func Not(a *Term) *Term {
	switch {
	case a.IsTrue():
		return False
	case a.IsFalse():
		return True
	case a.Op == "not":
		return a.Args[0]
	}
	mustBool(a)
	return mk("not", BoolSort, a)
}

func mustBool(a *Term) {
	if a.Sort.Kind != SBool {
		panic("expected Bool term, got " + a.Sort.String() + ": " + a.String())
	}
}

func And(as ...*Term) *Term {
	var out []*Term
	for _, a := range as {
		mustBool(a)
		if a.IsFalse() {
			return False
		}
		if a.IsTrue() {
			continue
		}
		if a.Op == "and" {
			out = append(out, a.Args...)
		} else {
			out = append(out, a)
		}
	}
	switch len(out) {
	case 0:
		return True
	case 1:
		return out[0]
	}
	return mk("and", BoolSort, out...)
}

func Or(as ...*Term) *Term {
	var out []*Term
	for _, a := range as {
		mustBool(a)
		if a.IsTrue() {
			return True
		}
		if a.IsFalse() {
			continue
		}
		if a.Op == "or" {
			out = append(out, a.Args...)
		} else {
			out = append(out, a)
		}
	}
	switch len(out) {
	case 0:
		return False
	case 1:
		return out[0]
	}
	return mk("or", BoolSort, out...)
}

func Implies(a, b *Term) *Term {
	mustBool(a)
	mustBool(b)
	if a.IsTrue() {
		return b
	}
	if a.IsFalse() || b.IsTrue() {
		return True
	}
	if b.IsFalse() {
		return Not(a)
	}
	return mk("=>", BoolSort, a, b)
}

func Iff(a, b *Term) *Term { return Eq(a, b) }

func Eq(a, b *Term) *Term {
	if !sameSort(a.Sort, b.Sort) {
		panic(fmt.Sprintf("Eq: sorts differ: %s : %s  vs  %s : %s", a, a.Sort, b, b.Sort))
	}
	if a == b || a.String() == b.String() {
		return True
	}
	if a.Op == "int" && b.Op == "int" {
		return BoolLit(a.Int.Cmp(b.Int) == 0)
	}
	if a.Sort.Kind == SBool {
		if a.IsTrue() {
			return b
		}
		if b.IsTrue() {
			return a
		}
		if a.IsFalse() {
			return Not(b)
		}
		if b.IsFalse() {
			return Not(a)
		}
	}
	return mk("=", BoolSort, a, b)
}

func Neq(a, b *Term) *Term { return Not(Eq(a, b)) }

func Ite(c, a, b *Term) *Term {
	mustBool(c)
	if !sameSort(a.Sort, b.Sort) {
		panic(fmt.Sprintf("Ite: sorts differ: %s vs %s (%s / %s)", a.Sort, b.Sort, a, b))
	}
	if c.IsTrue() {
		return a
	}
	if c.IsFalse() {
		return b
	}
	if a == b || a.String() == b.String() {
		return a
	}
	if a.Sort.Kind == SBool {
		if a.IsTrue() && b.IsFalse() {
			return c
		}
		if a.IsFalse() && b.IsTrue() {
			return Not(c)
		}
	}
	return mk("ite", a.Sort, c, a, b)
}

func cmpLit(op string, a, b *Term) (*Term, bool) {
	if a.Op == "int" && b.Op == "int" {
		c := a.Int.Cmp(b.Int)
		switch op {
		case "<":
			return BoolLit(c < 0), true
		case "<=":
			return BoolLit(c <= 0), true
		case ">":
			return BoolLit(c > 0), true
		case ">=":
			return BoolLit(c >= 0), true
		}
	}
	return nil, false
}

func Cmp(op string, a, b *Term) *Term {
	if r, ok := cmpLit(op, a, b); ok {
		return r
	}
	if !sameSort(a.Sort, b.Sort) {
		panic(fmt.Sprintf("Cmp %s: sorts differ: %s vs %s", op, a.Sort, b.Sort))
	}
	return mk(op, BoolSort, a, b)
}
func Lt(a, b *Term) *Term { return Cmp("<", a, b) }
func Le(a, b *Term) *Term { return Cmp("<=", a, b) }
func Gt(a, b *Term) *Term { return Cmp(">", a, b) }
func Ge(a, b *Term) *Term { return Cmp(">=", a, b) }

func Add(a, b *Term) *Term {
	if a.Op == "int" && b.Op == "int" {
		return BigLit(new(big.Int).Add(a.Int, b.Int))
	}
	if a.Op == "int" && a.Int.Sign() == 0 {
		return b
	}
	if b.Op == "int" && b.Int.Sign() == 0 {
		return a
	}
	return mk("+", a.Sort, a, b)
}
func Sub(a, b *Term) *Term {
	if a.Op == "int" && b.Op == "int" {
		return BigLit(new(big.Int).Sub(a.Int, b.Int))
	}
	if b.Op == "int" && b.Int.Sign() == 0 {
		return a
	}
	return mk("-", a.Sort, a, b)
}
func Mul(a, b *Term) *Term {
	if a.Op == "int" && b.Op == "int" {
		return BigLit(new(big.Int).Mul(a.Int, b.Int))
	}
	return mk("*", a.Sort, a, b)
}
func Neg(a *Term) *Term {
	if a.Op == "int" {
		return BigLit(new(big.Int).Neg(a.Int))
	}
	return mk("-", a.Sort, a)
}

func Select(arr, idx *Term) *Term {
	if arr.Sort.Kind != SArray {
		panic("select on non-array " + arr.String())
	}
	if !sameSort(arr.Sort.Key, idx.Sort) {
		panic(fmt.Sprintf("select: index sort %s, array %s", idx.Sort, arr.Sort))
	}
	// read-over-write on syntactically equal / distinct literal indices
	for arr.Op == "store" {
		if arr.Args[1] == idx || arr.Args[1].String() == idx.String() {
			return arr.Args[2]
		}
		if (arr.Args[1].Op == "int" && idx.Op == "int") || knownDistinct(arr.Args[1], idx) {
			arr = arr.Args[0]
			continue
		}
		break
	}
	if arr.Op == "constarr" {
		return arr.Args[0]
	}
	return mk("select", arr.Sort.Val, arr, idx)
}

func Store(arr, idx, v *Term) *Term {
	if arr.Sort.Kind != SArray || !sameSort(arr.Sort.Key, idx.Sort) || !sameSort(arr.Sort.Val, v.Sort) {
		panic(fmt.Sprintf("store: ill-sorted: %s [%s] := %s", arr.Sort, idx.Sort, v.Sort))
	}
	return mk("store", arr.Sort, arr, idx, v)
}

// ConstArray is ((as const (Array K V)) v).
func ConstArray(s *Sort, v *Term) *Term { return &Term{Op: "constarr", Sort: s, Args: []*Term{v}} }

// cleanPats drops triggers that SMT solvers reject (boolean connectives, ite, arithmetic-only terms).
func cleanPats(pats [][]*Term) [][]*Term {
	var out [][]*Term
	for _, p := range pats {
		ok := len(p) > 0
		for _, t := range p {
			if !validTrigger(t, true) {
				ok = false
			}
		}
		if ok {
			out = append(out, p)
		}
	}
	return out
}

func validTrigger(t *Term, top bool) bool {
	switch t.Op {
	case "and", "or", "not", "=>", "ite", "=", "distinct", "<", "<=", ">", ">=", "forall", "exists":
		return false
	}
	if top && t.Op != "select" && t.Op != "app" {
		return false
	}
	for _, a := range t.Args {
		if !validTrigger(a, false) {
			return false
		}
	}
	return true
}

func Forall(bound []*Term, body *Term, pats ...[]*Term) *Term {
	pats = cleanPats(pats)
	if body.IsTrue() {
		return True
	}
	if len(bound) == 0 {
		return body
	}
	return &Term{Op: "forall", Bound: bound, Args: []*Term{body}, Sort: BoolSort, Pats: pats}
}
func Exists(bound []*Term, body *Term, pats ...[]*Term) *Term {
	pats = cleanPats(pats)
	if body.IsFalse() {
		return False
	}
	if len(bound) == 0 {
		return body
	}
	return &Term{Op: "exists", Bound: bound, Args: []*Term{body}, Sort: BoolSort, Pats: pats}
}

func (t *Term) String() string {
	if t.str != "" {
		return t.str
	}
	var s string
	switch t.Op {
	case "const", "var":
		s = quoteSym(t.Name)
	case "int":
		if t.Int.Sign() < 0 {
			s = "(- " + new(big.Int).Neg(t.Int).String() + ")"
		} else {
			s = t.Int.String()
		}
		if t.Sort.Kind == SReal {
			s = "(to_real " + s + ")"
		}
	case "true", "false":
		s = t.Op
	case "app":
		s = "(" + quoteSym(t.Name) + " " + joinTerms(t.Args) + ")"
	case "constarr":
		s = "((as const " + t.Sort.String() + ") " + t.Args[0].String() + ")"
	case "forall", "exists":
		var b strings.Builder
		b.WriteString("(" + t.Op + " (")
		for _, v := range t.Bound {
			b.WriteString("(" + quoteSym(v.Name) + " " + v.Sort.String() + ")")
		}
		b.WriteString(") ")
		if len(t.Pats) > 0 {
			b.WriteString("(! " + t.Args[0].String())
			for _, p := range t.Pats {
				b.WriteString(" :pattern (" + joinTerms(p) + ")")
			}
			b.WriteString(")")
		} else {
			b.WriteString(t.Args[0].String())
		}
		b.WriteString(")")
		s = b.String()
	default:
		s = "(" + t.Op + " " + joinTerms(t.Args) + ")"
	}
	t.str = s
	return s
}

func quoteSym(n string) string { return n }

func joinTerms(ts []*Term) string {
	ss := make([]string, len(ts))
	for i, t := range ts {
		ss[i] = t.String()
	}
	return strings.Join(ss, " ")
}

// symbols collects the declared symbols occurring in t.
func (t *Term) symbols(acc map[string]bool, seen map[*Term]bool) {
	if seen[t] {
		return
	}
	seen[t] = true
	if t.Op == "const" || t.Op == "app" {
		acc[t.Name] = true
	}
	for _, a := range t.Args {
		a.symbols(acc, seen)
	}
	for _, p := range t.Pats {
		for _, a := range p {
			a.symbols(acc, seen)
		}
	}
}

// Subst replaces constants/vars by name.
func (t *Term) Subst(m map[string]*Term) *Term {
	if len(m) == 0 {
		return t
	}
	return t.subst(m, map[*Term]*Term{})
}

func (t *Term) subst(m map[string]*Term, memo map[*Term]*Term) *Term {
	if r, ok := memo[t]; ok {
		return r
	}
	var r *Term
	switch t.Op {
	case "const", "var":
		if n, ok := m[t.Name]; ok {
			r = n
		} else {
			r = t
		}
	case "int", "true", "false":
		r = t
	default:
		changed := false
		args := make([]*Term, len(t.Args))
		for i, a := range t.Args {
			args[i] = a.subst(m, memo)
			if args[i] != a {
				changed = true
			}
		}
		var pats [][]*Term
		for _, p := range t.Pats {
			np := make([]*Term, len(p))
			for i, a := range p {
				np[i] = a.subst(m, memo)
				if np[i] != a {
					changed = true
				}
			}
			pats = append(pats, np)
		}
		if !changed {
			r = t
		} else {
			r = rebuild(t, args, pats)
		}
	}
	memo[t] = r
	return r
}

func rebuild(t *Term, args []*Term, pats [][]*Term) *Term {
	switch t.Op {
	case "and":
		return And(args...)
	case "or":
		return Or(args...)
	case "not":
		return Not(args[0])
	case "=>":
		return Implies(args[0], args[1])
	case "=":
		return Eq(args[0], args[1])
	case "ite":
		return Ite(args[0], args[1], args[2])
	case "select":
		return Select(args[0], args[1])
	case "+":
		if len(args) == 2 {
			return Add(args[0], args[1])
		}
	case "<", "<=", ">", ">=":
		return Cmp(t.Op, args[0], args[1])
	}
	return &Term{Op: t.Op, Name: t.Name, Args: args, Sort: t.Sort, Int: t.Int, Bound: t.Bound, Pats: pats}
}

// Script renders a complete SMT-LIB query: declarations used, assumptions, and the negated goal.
func (c *Ctx) Script(assumptions []*Term, negGoal *Term, getVals []*Term, prelude string) string {
	used := map[string]bool{}
	seen := map[*Term]bool{}
	for _, a := range assumptions {
		a.symbols(used, seen)
	}
	negGoal.symbols(used, seen)
	for _, v := range getVals {
		v.symbols(used, seen)
	}
	var b strings.Builder
	b.WriteString("(set-option :produce-models true)\n(set-logic ALL)\n")
	b.WriteString("(declare-sort Str 0)\n(declare-sort Ref 0)\n")
	b.WriteString(prelude)
	for _, n := range c.order {
		if !used[n] {
			continue
		}
		d := c.decls[n]
		if len(d.Args) == 0 {
			fmt.Fprintf(&b, "(declare-const %s %s)\n", quoteSym(n), d.Res)
		} else {
			as := make([]string, len(d.Args))
			for i, a := range d.Args {
				as[i] = a.String()
			}
			fmt.Fprintf(&b, "(declare-fun %s (%s) %s)\n", quoteSym(n), strings.Join(as, " "), d.Res)
		}
	}
	for _, a := range assumptions {
		if a.IsTrue() {
			continue
		}
		fmt.Fprintf(&b, "(assert %s)\n", a)
	}
	fmt.Fprintf(&b, "(assert %s)\n(check-sat)\n", negGoal)
	if len(getVals) > 0 {
		fmt.Fprintf(&b, "(get-value (%s))\n", joinTerms(getVals))
	}
	return b.String()
}

func sortedKeys[V any](m map[string]V) []string {
	ks := make([]string, 0, len(m))
	for k := range m {
		ks = append(ks, k)
	}
	sort.Strings(ks)
	return ks
}
