package main

// Go-side symbolic values. Every Go type is flattened into a tuple of SMT leaves; composite
// values (structs, slices, interfaces, tuples) are trees whose leaves are Terms.

import (
	"fmt"
	"go/types"
	"strconv"
	"strings"

	"golang.org/x/tools/go/ssa"
)

type VKind int

const (
	KScalar VKind = iota // Int / Bool / Real / Str / Ref (maps, chans, unsafe pointers)
	KStruct
	KSlice
	KIface
	KPtr
	KTuple
	KArray // fixed-size array, value semantics; Elems is lifted over Int
	KFunc
)

type Value struct {
	K      VKind
	T      types.Type
	Term   *Term    // KScalar; KFunc: function identity (Ref)
	Fields []*Value // KStruct, KTuple
	Ref    *Term    // KSlice: backing array ref
	Off    *Term    // KSlice
	Len    *Term    // KSlice
	Tag    *Term    // KIface: dynamic type tag (0 = nil interface)
	IRef   *Term    // KIface: payload reference
	P      *Pointer // KPtr
	Elems  *Value   // KArray: value of element type whose leaves are (Array Int leafSort)
	Fn     *ssa.Function
	Bind   []*Value // closure bindings
	Boxed  *Value   // KIface: Go-side known concrete payload (when statically known)
}

type PathElem struct {
	Field int   // >= 0: struct field index
	Idx   *Term // non-nil: array index (inside a KArray)
}

// Pointer is a Go-side pointer. Exactly one of Cell / Base is set.
type Pointer struct {
	Cell   *Cell      // local (non-escaping) variable
	Base   *Term      // Ref of the heap object (or of the slice backing array when Elem)
	ObjT   types.Type // type of the heap object / of the slice element (heap namespace)
	Elem   bool       // element of a slice backing array
	Idx    *Term      // Elem: absolute index into backing array
	Path   []PathElem // path inside the object
	Global string     // non-empty: package-level variable (Base is its fixed address)
}

// Cell is a non-escaping local variable (ssa.Alloc with Heap == false), or an iterator state.
type Cell struct {
	Name string
	T    types.Type
	ID   int
}

type Leaf struct {
	Path string // e.g. "0.2.#len"
	Sort *Sort
}

func under(t types.Type) types.Type {
	for {
		u := t.Underlying()
		if u == t {
			return t
		}
		t = u
	}
}

func typeKey(t types.Type) string {
	return types.TypeString(t, func(p *types.Package) string { return p.Name() })
}

var leafCache = map[string][]Leaf{}

// leavesOf returns the SMT leaves of type t in canonical order.
func leavesOf(t types.Type) []Leaf {
	key := typeKey(t)
	if l, ok := leafCache[key]; ok {
		return l
	}
	var out []Leaf
	switch u := under(t).(type) {
	case *types.Basic:
		out = []Leaf{{"", basicSort(u)}}
	case *types.Pointer, *types.Map, *types.Chan, *types.Signature:
		out = []Leaf{{"", RefSort}}
	case *types.Slice:
		out = []Leaf{{"#ref", RefSort}, {"#off", IntSort}, {"#len", IntSort}}
	case *types.Interface:
		out = []Leaf{{"#tag", IntSort}, {"#iref", RefSort}}
	case *types.Struct:
		for i := 0; i < u.NumFields(); i++ {
			for _, l := range leavesOf(u.Field(i).Type()) {
				out = append(out, Leaf{joinPath(strconv.Itoa(i), l.Path), l.Sort})
			}
		}
	case *types.Array:
		for _, l := range leavesOf(u.Elem()) {
			out = append(out, Leaf{joinPath("[]", l.Path), ArraySort(IntSort, l.Sort)})
		}
	case *types.Tuple:
		for i := 0; i < u.Len(); i++ {
			for _, l := range leavesOf(u.At(i).Type()) {
				out = append(out, Leaf{joinPath(strconv.Itoa(i), l.Path), l.Sort})
			}
		}
	case *types.TypeParam:
		out = []Leaf{{"#tag", IntSort}, {"#iref", RefSort}}
	default:
		panic(fmt.Sprintf("leavesOf: unsupported type %s (%T)", t, u))
	}
	leafCache[key] = out
	return out
}

func joinPath(a, b string) string {
	if b == "" {
		return a
	}
	if a == "" {
		return b
	}
	return a + "." + b
}

func basicSort(b *types.Basic) *Sort {
	switch {
	case b.Info()&types.IsBoolean != 0:
		return BoolSort
	case b.Info()&types.IsInteger != 0:
		return IntSort
	case b.Info()&types.IsFloat != 0:
		return RealSort
	case b.Info()&types.IsString != 0:
		return StrSort
	case b.Kind() == types.UnsafePointer:
		return RefSort
	case b.Kind() == types.UntypedNil:
		return RefSort
	}
	panic("basicSort: unsupported basic type " + b.String())
}

// buildValue constructs a Value of type t whose leaves are produced by f (called in leaf order).
func buildValue(t types.Type, f func(l Leaf) *Term) *Value {
	return buildValueP(t, "", f)
}

func buildValueP(t types.Type, prefix string, f func(l Leaf) *Term) *Value {
	switch u := under(t).(type) {
	case *types.Basic:
		return &Value{K: KScalar, T: t, Term: f(Leaf{prefix, basicSort(u)})}
	case *types.Map, *types.Chan:
		return &Value{K: KScalar, T: t, Term: f(Leaf{prefix, RefSort})}
	case *types.Signature:
		return &Value{K: KFunc, T: t, Term: f(Leaf{prefix, RefSort})}
	case *types.Pointer:
		return &Value{K: KPtr, T: t, P: &Pointer{Base: f(Leaf{prefix, RefSort}), ObjT: u.Elem()}}
	case *types.Slice:
		return &Value{K: KSlice, T: t,
			Ref: f(Leaf{joinPath(prefix, "#ref"), RefSort}),
			Off: f(Leaf{joinPath(prefix, "#off"), IntSort}),
			Len: f(Leaf{joinPath(prefix, "#len"), IntSort})}
	case *types.Interface, *types.TypeParam:
		return &Value{K: KIface, T: t,
			Tag:  f(Leaf{joinPath(prefix, "#tag"), IntSort}),
			IRef: f(Leaf{joinPath(prefix, "#iref"), RefSort})}
	case *types.Struct:
		v := &Value{K: KStruct, T: t}
		for i := 0; i < u.NumFields(); i++ {
			v.Fields = append(v.Fields, buildValueP(u.Field(i).Type(), joinPath(prefix, strconv.Itoa(i)), f))
		}
		return v
	case *types.Tuple:
		v := &Value{K: KTuple, T: t}
		for i := 0; i < u.Len(); i++ {
			v.Fields = append(v.Fields, buildValueP(u.At(i).Type(), joinPath(prefix, strconv.Itoa(i)), f))
		}
		return v
	case *types.Array:
		elems := buildValueP(u.Elem(), joinPath(prefix, "[]"), func(l Leaf) *Term {
			return f(Leaf{l.Path, ArraySort(IntSort, l.Sort)})
		})
		return &Value{K: KArray, T: t, Elems: elems}
	}
	panic(fmt.Sprintf("buildValue: unsupported type %s", t))
}

// leafTerms lists the leaf terms of v in the order of leavesOf(v.T).
func leafTerms(v *Value) []*Term {
	switch v.K {
	case KScalar:
		return []*Term{v.Term}
	case KFunc:
		if v.Term == nil {
			panic("function value without identity")
		}
		return []*Term{v.Term}
	case KPtr:
		return []*Term{ptrAsRef(v.P)}
	case KSlice:
		return []*Term{v.Ref, v.Off, v.Len}
	case KIface:
		return []*Term{v.Tag, v.IRef}
	case KStruct, KTuple:
		var out []*Term
		for _, f := range v.Fields {
			out = append(out, leafTerms(f)...)
		}
		return out
	case KArray:
		return leafTerms(v.Elems)
	}
	panic("leafTerms: bad value")
}

type unsupported struct{ msg string }

func (u unsupported) Error() string { return "outside subset: " + u.msg }

func failf(format string, a ...interface{}) { panic(unsupported{fmt.Sprintf(format, a...)}) }

func ptrAsRef(p *Pointer) *Term {
	if p.Cell != nil {
		failf("address of local variable %s escapes", p.Cell.Name)
	}
	if p.Elem || len(p.Path) > 0 {
		failf("interior pointer (into %s) escapes", typeKey(p.ObjT))
	}
	return p.Base
}

// mapLeaves rebuilds v with every leaf transformed by f.
func mapLeaves(v *Value, f func(*Term) *Term) *Value {
	ts := leafTerms(v)
	i := 0
	return buildValue(v.T, func(l Leaf) *Term {
		t := f(ts[i])
		i++
		return t
	})
}

// zipLeaves combines two values of the same type leaf-wise.
func zipLeaves(a, b *Value, f func(x, y *Term) *Term) *Value {
	ta, tb := leafTerms(a), leafTerms(b)
	if len(ta) != len(tb) {
		panic(fmt.Sprintf("zipLeaves: shape mismatch %s vs %s", a.T, b.T))
	}
	i := 0
	r := buildValue(a.T, func(l Leaf) *Term {
		t := f(ta[i], tb[i])
		i++
		return t
	})
	return r
}

func iteValue(c *Term, a, b *Value) *Value {
	if c.IsTrue() {
		return a
	}
	if c.IsFalse() {
		return b
	}
	if a == b {
		return a
	}
	// Pointers to locals / interior pointers cannot be merged leaf-wise.
	if a.K == KPtr && (a.P.Cell != nil || b.P.Cell != nil || a.P.Elem || b.P.Elem || len(a.P.Path) > 0 || len(b.P.Path) > 0) {
		if samePointerShape(a.P, b.P) {
			np := *a.P
			if a.P.Base != nil {
				np.Base = Ite(c, a.P.Base, b.P.Base)
			}
			if a.P.Idx != nil {
				np.Idx = Ite(c, a.P.Idx, b.P.Idx)
			}
			return &Value{K: KPtr, T: a.T, P: &np}
		}
		failf("merge of differently shaped pointers")
	}
	if a.K == KFunc && (a.Term == nil || b.Term == nil) {
		if a.Fn == b.Fn && len(a.Bind) == len(b.Bind) {
			same := true
			for i := range a.Bind {
				if a.Bind[i] != b.Bind[i] {
					same = false
				}
			}
			if same {
				return a
			}
		}
		failf("merge of different closures")
	}
	r := zipLeaves(a, b, func(x, y *Term) *Term { return Ite(c, x, y) })
	if a.K == KFunc && a.Fn == b.Fn && a.Fn != nil && len(a.Bind) == 0 && len(b.Bind) == 0 {
		r.Fn = a.Fn
	}
	if a.K == KIface && a.Boxed != nil && b.Boxed != nil && a.Tag.String() == b.Tag.String() && types.Identical(a.Boxed.T, b.Boxed.T) {
		func() {
			defer func() { recover() }()
			r.Boxed = iteValue(c, a.Boxed, b.Boxed)
		}()
	}
	return r
}

func samePointerShape(a, b *Pointer) bool {
	if a.Cell != b.Cell || a.Elem != b.Elem || len(a.Path) != len(b.Path) || a.Global != b.Global {
		return false
	}
	if (a.ObjT == nil) != (b.ObjT == nil) || (a.ObjT != nil && !types.Identical(a.ObjT, b.ObjT)) {
		return false
	}
	for i := range a.Path {
		if a.Path[i].Field != b.Path[i].Field || (a.Path[i].Idx == nil) != (b.Path[i].Idx == nil) {
			return false
		}
		if a.Path[i].Idx != nil && a.Path[i].Idx.String() != b.Path[i].Idx.String() {
			return false
		}
	}
	return true
}

func eqValue(a, b *Value) *Term {
	if a.K == KPtr && b.K == KPtr && (a.P.Cell != nil || b.P.Cell != nil) {
		return BoolLit(a.P.Cell == b.P.Cell)
	}
	if a.K == KPtr && b.K == KPtr {
		ai := a.P.Elem || len(a.P.Path) > 0
		bi := b.P.Elem || len(b.P.Path) > 0
		if ai || bi {
			if samePointerShape(a.P, b.P) {
				cs := []*Term{Eq(a.P.Base, b.P.Base)}
				if a.P.Idx != nil {
					cs = append(cs, Eq(a.P.Idx, b.P.Idx))
				}
				return And(cs...)
			}
			// an interior pointer is never nil and never equals a pointer of another shape
			return False
		}
	}
	ta, tb := leafTerms(a), leafTerms(b)
	if len(ta) != len(tb) {
		panic("eqValue: shape mismatch")
	}
	var cs []*Term
	for i := range ta {
		cs = append(cs, Eq(ta[i], tb[i]))
	}
	return And(cs...)
}

func scalar(t types.Type, term *Term) *Value { return &Value{K: KScalar, T: t, Term: term} }

func pathString(p []PathElem) string {
	var parts []string
	for _, e := range p {
		if e.Idx != nil {
			parts = append(parts, "[]")
		} else {
			parts = append(parts, strconv.Itoa(e.Field))
		}
	}
	return strings.Join(parts, ".")
}

// typeAtPath follows a path from type t.
func typeAtPath(t types.Type, p []PathElem) types.Type {
	for _, e := range p {
		switch u := under(t).(type) {
		case *types.Struct:
			t = u.Field(e.Field).Type()
		case *types.Array:
			t = u.Elem()
		default:
			panic("typeAtPath: bad path")
		}
	}
	return t
}
