package main

import (
	"bytes"
	"context"
	"fmt"
	"os"
	"os/exec"
	"path/filepath"
	"strings"
	"sync"
	"time"
)

type SolverAnswer struct {
	Status  string // unsat, sat, unknown, timeout, error
	Solver  string
	Time    float64
	Output  string
	Model   map[string]string
	Answers map[string]string // per solver
}

type solverSpec struct {
	name string
	args func(file string, timeoutS int) []string
}

var solvers = []solverSpec{
	{"z3", func(f string, t int) []string { return []string{"/usr/bin/z3", fmt.Sprintf("-T:%d", t), "-smt2", f} }},
	{"z3-new", func(f string, t int) []string { return []string{"z3-new", fmt.Sprintf("-T:%d", t), "-smt2", f} }},
	{"cvc5", func(f string, t int) []string {
		return []string{"cvc5", "--produce-models", fmt.Sprintf("--tlimit=%d", t*1000), "--lang=smt2", f}
	}},
}

// buildScript renders the query for one obligation.
func (x *Exec) buildScript(o *Obligation, extraFacts []*Term, getVals []*Term) string {
	facts := x.facts[:o.NFacts]
	var as []*Term
	as = append(as, x.perm...)
	as = append(as, facts...)
	as = append(as, extraFacts...)
	neg := And(o.Guard, Not(o.Goal))
	return x.renderScript(as, neg, getVals)
}

// relevantFacts keeps the assumptions in the cone of influence of the query: a fact is kept when it
// shares a (non-ubiquitous) symbol with the goal or with a fact already kept. Dropping assumptions is sound.
func relevantFacts(as []*Term, neg *Term, getVals []*Term) []*Term {
	if len(as) < 40 || os.Getenv("GVC_NORELEVANCE") != "" {
		return as
	}
	ubiq := map[string]bool{"null": true, "slen": true, "sbytes": true, "allocId": true, "litId": true, "charStr": true}
	syms := make([]map[string]bool, len(as))
	for i, a := range as {
		m := map[string]bool{}
		a.symbols(m, map[*Term]bool{})
		for u := range ubiq {
			delete(m, u)
		}
		syms[i] = m
	}
	rel := map[string]bool{}
	neg.symbols(rel, map[*Term]bool{})
	for _, v := range getVals {
		v.symbols(rel, map[*Term]bool{})
	}
	for u := range ubiq {
		delete(rel, u)
	}
	idx := map[string][]int{}
	for i, m := range syms {
		for sname := range m {
			idx[sname] = append(idx[sname], i)
		}
	}
	keep := make([]bool, len(as))
	var work []string
	for sname := range rel {
		work = append(work, sname)
	}
	for len(work) > 0 {
		sname := work[len(work)-1]
		work = work[:len(work)-1]
		for _, i := range idx[sname] {
			if keep[i] {
				continue
			}
			keep[i] = true
			for s2 := range syms[i] {
				if !rel[s2] {
					rel[s2] = true
					work = append(work, s2)
				}
			}
		}
	}
	var out []*Term
	for i, a := range as {
		if keep[i] || len(syms[i]) == 0 {
			out = append(out, a)
		}
	}
	return out
}

func (x *Exec) renderScript(as []*Term, neg *Term, getVals []*Term) string {
	as = relevantFacts(as, neg, getVals)
	// enable axiom groups and make sure their symbols are declared
	var prelude strings.Builder
	on := map[string]bool{}
	var enable func(g string)
	enable = func(g string) {
		if on[g] {
			return
		}
		ag, ok := axiomGroups[g]
		if !ok {
			return
		}
		on[g] = true
		for _, d := range ag.deps {
			enable(d)
		}
	}
	for g := range x.axiomsOn {
		enable(g)
	}
	used := map[string]bool{}
	seen := map[*Term]bool{}
	for _, a := range as {
		a.symbols(used, seen)
	}
	neg.symbols(used, seen)
	for _, v := range getVals {
		v.symbols(used, seen)
	}
	order := []string{"str", "substr", "mkstr", "concat", "strjoin", "strcmp", "prefix", "indexbyte", "alloc"}
	var axText strings.Builder
	for _, g := range order {
		if !on[g] {
			continue
		}
		ag := axiomGroups[g]
		// a group is relevant only if one of its own symbols is used
		rel := false
		for _, d := range ag.needs {
			if used[d.Name] {
				rel = true
			}
		}
		if !rel && g != "str" {
			continue
		}
		if g == "str" && !used["slen"] && !used["sbytes"] {
			// needed when a dependent group is relevant
			dep := false
			for _, g2 := range order {
				if on[g2] && g2 != "str" {
					for _, d := range axiomGroups[g2].needs {
						if used[d.Name] {
							dep = true
						}
					}
				}
			}
			if !dep {
				continue
			}
		}
		for _, d := range ag.needs {
			x.ctx.Declare(d.Name, d.Args, d.Res)
			used[d.Name] = true
		}
		for _, dg := range ag.deps {
			for _, d := range axiomGroups[dg].needs {
				x.ctx.Declare(d.Name, d.Args, d.Res)
				used[d.Name] = true
			}
		}
		axText.WriteString(ag.text)
	}
	var b strings.Builder
	b.WriteString("(set-option :produce-models true)\n(set-logic ALL)\n")
	b.WriteString("(declare-sort Str 0)\n(declare-sort Ref 0)\n")
	b.WriteString(prelude.String())
	for _, n := range x.ctx.order {
		if !used[n] {
			continue
		}
		d := x.ctx.decls[n]
		if len(d.Args) == 0 {
			fmt.Fprintf(&b, "(declare-const %s %s)\n", n, d.Res)
		} else {
			ss := make([]string, len(d.Args))
			for i, a := range d.Args {
				ss[i] = a.String()
			}
			fmt.Fprintf(&b, "(declare-fun %s (%s) %s)\n", n, strings.Join(ss, " "), d.Res)
		}
	}
	b.WriteString(axText.String())
	// spec axioms (relevance: share a u$ symbol with the query)
	for _, ax := range x.specAxioms {
		au := map[string]bool{}
		ax.symbols(au, map[*Term]bool{})
		rel := false
		for s := range au {
			if (strings.HasPrefix(s, "u$") || strings.HasPrefix(s, "spec$")) && used[s] {
				rel = true
			}
		}
		if rel {
			// declare missing symbols of the axiom
			for s := range au {
				if !used[s] {
					used[s] = true
					d := x.ctx.decls[s]
					if d == nil {
						continue
					}
					if len(d.Args) == 0 {
						fmt.Fprintf(&b, "(declare-const %s %s)\n", s, d.Res)
					} else {
						ss := make([]string, len(d.Args))
						for i, a := range d.Args {
							ss[i] = a.String()
						}
						fmt.Fprintf(&b, "(declare-fun %s (%s) %s)\n", s, strings.Join(ss, " "), d.Res)
					}
				}
			}
			fmt.Fprintf(&b, "(assert %s)\n", ax)
		}
	}
	for _, a := range as {
		if a.IsTrue() {
			continue
		}
		fmt.Fprintf(&b, "(assert %s)\n", a)
	}
	fmt.Fprintf(&b, "(assert %s)\n(check-sat)\n", neg)
	if len(getVals) > 0 {
		fmt.Fprintf(&b, "(get-value (%s))\n", joinTerms(getVals))
	}
	return b.String()
}

var smtSem = make(chan struct{}, 14)

// runSolvers races the solvers on a script; first definite answer (sat/unsat) wins.
func runSolvers(script, workDir, tag string, timeoutS int, which []string) *SolverAnswer {
	os.MkdirAll(workDir, 0o755)
	file := filepath.Join(workDir, sanitize(tag)+".smt2")
	if len(file) > 200 {
		file = file[:180] + fmt.Sprintf("_%x.smt2", hashString(tag))
	}
	os.WriteFile(file, []byte(script), 0o644)
	ctx, cancel := context.WithCancel(context.Background())
	defer cancel()
	type res struct {
		name, status, out string
		t                 float64
	}
	ch := make(chan res, len(solvers))
	var wg sync.WaitGroup
	n := 0
	for _, s := range solvers {
		if len(which) > 0 && !contains(which, s.name) {
			continue
		}
		n++
		wg.Add(1)
		go func(s solverSpec) {
			defer wg.Done()
			smtSem <- struct{}{}
			defer func() { <-smtSem }()
			if ctx.Err() != nil {
				ch <- res{s.name, "cancelled", "", 0}
				return
			}
			args := s.args(file, timeoutS)
			cctx, ccancel := context.WithTimeout(ctx, time.Duration(timeoutS+2)*time.Second)
			defer ccancel()
			cmd := exec.CommandContext(cctx, args[0], args[1:]...)
			var out bytes.Buffer
			cmd.Stdout = &out
			cmd.Stderr = &out
			t0 := time.Now()
			cmd.Run()
			el := time.Since(t0).Seconds()
			first := ""
			for _, ln := range strings.Split(out.String(), "\n") {
				ln = strings.TrimSpace(ln)
				if ln == "sat" || ln == "unsat" || ln == "unknown" || strings.Contains(ln, "timeout") || strings.HasPrefix(ln, "(error") {
					first = ln
					break
				}
			}
			status := "error"
			switch {
			case first == "unsat" || first == "sat" || first == "unknown":
				status = first
			case strings.Contains(first, "timeout") || cctx.Err() != nil:
				status = "timeout"
				if ctx.Err() != nil {
					status = "cancelled"
				}
			}
			ch <- res{s.name, status, out.String(), el}
		}(s)
	}
	ans := &SolverAnswer{Status: "unknown", Answers: map[string]string{}}
	var total float64
	for i := 0; i < n; i++ {
		r := <-ch
		ans.Answers[r.name] = r.status
		if r.status == "cancelled" {
			continue
		}
		total += r.t
		if (r.status == "unsat" || r.status == "sat") && ans.Solver == "" {
			ans.Status, ans.Solver, ans.Time, ans.Output = r.status, r.name, r.t, r.out
			cancel()
		} else if ans.Solver == "" {
			if r.status == "error" {
				ans.Output += "[" + r.name + "] " + trunc(r.out, 400) + "\n"
			}
			if ans.Status != "timeout" || r.status == "timeout" {
				if r.status != "error" || ans.Status == "unknown" {
					ans.Status = r.status
				}
			}
		}
	}
	wg.Wait()
	if ans.Solver == "" {
		ans.Time = total
		// unknown/timeout/error: keep the most informative
		st := "unknown"
		for _, s := range ans.Answers {
			if s == "timeout" {
				st = "timeout"
			}
		}
		allErr := true
		for _, s := range ans.Answers {
			if s != "error" {
				allErr = false
			}
		}
		if allErr {
			st = "error"
		}
		ans.Status = st
	}
	if ans.Status == "sat" {
		ans.Model = parseGetValue(ans.Output)
	}
	return ans
}

func contains(ss []string, s string) bool {
	for _, t := range ss {
		if t == s {
			return true
		}
	}
	return false
}

func hashString(s string) uint32 {
	var h uint32 = 2166136261
	for i := 0; i < len(s); i++ {
		h ^= uint32(s[i])
		h *= 16777619
	}
	return h
}

// parseGetValue parses "((name value) (name value) ...)" (after the first line).
func parseGetValue(out string) map[string]string {
	m := map[string]string{}
	i := strings.Index(out, "\n")
	if i < 0 {
		return m
	}
	s := strings.TrimSpace(out[i+1:])
	if !strings.HasPrefix(s, "(") {
		return m
	}
	// tokenise s-expressions one level deep
	depth := 0
	start := -1
	for j := 0; j < len(s); j++ {
		switch s[j] {
		case '(':
			depth++
			if depth == 2 {
				start = j
			}
		case ')':
			if depth == 2 && start >= 0 {
				pair := s[start+1 : j]
				k, v := splitPair(pair)
				m[k] = v
				start = -1
			}
			depth--
		}
	}
	return m
}

func splitPair(p string) (string, string) {
	p = strings.TrimSpace(p)
	if strings.HasPrefix(p, "(") {
		e := matchParen(p, 0)
		return strings.TrimSpace(p[:e+1]), strings.TrimSpace(p[e+1:])
	}
	i := strings.IndexAny(p, " \t\n")
	if i < 0 {
		return p, ""
	}
	return p[:i], strings.TrimSpace(p[i:])
}
