package main

// Evaluation of specification expressions to symbolic values.

import (
	"fmt"
	"go/ast"
	"go/constant"
	"go/token"
	"go/types"
	"math/big"
	"os"
	"sort"
	"strconv"
	"strings"

	"golang.org/x/tools/go/ssa"
)

type SpecEnv struct {
	x       *Exec
	vars    map[string]*Value
	cur     *State
	old     *State
	fr      *Frame
	li      *loopInfo
	pkg     *types.Package
	at      *ssa.BasicBlock // program point for resolving Go variable names (loop header)
	stepOld bool            // `step` clause: old() is the loop-head state of the current iteration
	posHint token.Pos       // where Go type expressions written in the contract are evaluated
	oldVars map[string]*Value // calls clauses: the bindings old(...) is evaluated under (root parameters, unshadowed)
}

type specErr struct{ msg string }

func (e specErr) Error() string { return "contract error: " + e.msg }

func specFail(format string, a ...interface{}) { panic(specErr{fmt.Sprintf(format, a...)}) }

var (
	tInt  = types.Typ[types.Int]
	tBool = types.Typ[types.Bool]
	tStr  = types.Typ[types.String]
	tRef  = types.Typ[types.UnsafePointer]
)

func (env *SpecEnv) with(vars map[string]*Value) *SpecEnv {
	n := *env
	n.vars = map[string]*Value{}
	for k, v := range env.vars {
		n.vars[k] = v
	}
	for k, v := range vars {
		n.vars[k] = v
	}
	return &n
}

func (env *SpecEnv) evalBool(e *Expr) *Term {
	v := env.eval(e)
	if v.K != KScalar || v.Term.Sort.Kind != SBool {
		specFail("expected boolean: %s", e)
	}
	return v.Term
}

func (env *SpecEnv) sortOfName(n string) (*Sort, types.Type) {
	switch n {
	case "int", "Int", "int64":
		return IntSort, tInt
	case "bool", "Bool":
		return BoolSort, tBool
	case "string", "Str":
		return StrSort, tStr
	case "Ref":
		return RefSort, tRef
	case "Real":
		return RealSort, types.Typ[types.Float64]
	}
	if t := env.lookupType(n); t != nil {
		ls := leavesOf(t)
		if len(ls) == 1 {
			return ls[0].Sort, t
		}
	}
	specFail("unknown sort %s", n)
	return nil, nil
}

func (env *SpecEnv) lookupType(name string) types.Type {
	// a Go type expression (written as a string literal in the contract), evaluated in the
	// scope of the function under verification
	if strings.ContainsAny(name, "[]{} ") || strings.HasPrefix(name, "map") {
		pos := env.posHint
		if !pos.IsValid() && env.x.root != nil {
			pos = env.x.root.Pos()
		}
		if env.pkg != nil {
			if tv, err := types.Eval(env.x.fset, env.pkg, pos, name); err == nil && tv.Type != nil {
				return tv.Type
			}
		}
		return nil
	}
	ptr := false
	if strings.HasPrefix(name, "*") {
		ptr = true
		name = name[1:]
	}
	var t types.Type
	find := func(p *types.Package, n string) types.Type {
		if p == nil {
			return nil
		}
		if o := p.Scope().Lookup(n); o != nil {
			if tn, ok := o.(*types.TypeName); ok {
				return tn.Type()
			}
		}
		return nil
	}
	if i := strings.LastIndex(name, "."); i >= 0 {
		pn, tn := name[:i], name[i+1:]
		for _, p := range env.x.prog.AllPackages() {
			if p.Pkg.Name() == pn || p.Pkg.Path() == pn {
				if t = find(p.Pkg, tn); t != nil {
					break
				}
			}
		}
	} else {
		t = find(env.pkg, name)
		if t == nil {
			if o := types.Universe.Lookup(name); o != nil {
				if tn, ok := o.(*types.TypeName); ok {
					t = tn.Type()
				}
			}
		}
	}
	if t == nil {
		return nil
	}
	if ptr {
		return types.NewPointer(t)
	}
	return t
}

func specInt(n int64) *Value { return scalar(tInt, IntLit(n)) }

func (env *SpecEnv) eval(e *Expr) *Value {
	x := env.x
	switch e.Op {
	case "paren":
		return env.eval(e.Args[0])
	case "int":
		n, ok := new(big.Int).SetString(e.Int, 0)
		if !ok {
			specFail("bad integer %s", e.Int)
		}
		return scalar(tInt, BigLit(n))
	case "str":
		return scalar(tStr, x.strLit(e.Name))
	case "bool":
		return scalar(tBool, BoolLit(e.Name == "true"))
	case "nil":
		return &Value{K: KScalar, T: types.Typ[types.UntypedNil], Term: x.null()}
	case "ident":
		return env.ident(e.Name)
	case "old":
		if env.old == nil {
			specFail("old() not available here")
		}
		n := *env
		n.cur = env.old
		if env.stepOld {
			// `step` clause of a loop: old(e) is e at the head of the current iteration; variables
			// denote their loop-head values (phis are read without the back-edge override)
			saved := env.fr.phiOv
			env.fr.phiOv = nil
			defer func() { env.fr.phiOv = saved }()
			return n.eval(e.Args[0])
		}
		if env.oldVars != nil {
			// calls clause: inside old(...) names denote the verified function's own parameters at entry, not the
			// callee's parameters of the same name (which shadow them outside old)
			n.vars = env.oldVars
			n.at = nil
			n.li = nil
			n.oldVars = nil
			return n.eval(e.Args[0])
		}
		if env.fr != nil && env.at != nil {
			// inside a loop invariant: parameters named in old(...) denote their entry values
			vs := map[string]*Value{}
			for i, p := range env.fr.fn.Params {
				if i < len(env.fr.params) {
					vs[p.Name()] = env.fr.params[i]
				}
			}
			// a closure's captured variables: their values at the closure's entry
			for i, fv := range env.fr.fn.FreeVars {
				if i >= len(env.fr.bind) {
					break
				}
				v := env.fr.bind[i]
				if v.K == KPtr {
					if pt, ok := fv.Type().(*types.Pointer); ok {
						vs[fv.Name()] = x.load(env.fr.entry, v.P, pt.Elem())
						continue
					}
				}
				vs[fv.Name()] = v
			}
			for k, v := range env.vars {
				vs[k] = v
			}
			n.vars = vs
			n.at = nil
			n.li = nil
		}
		return n.eval(e.Args[0])
	case "unary":
		v := env.eval(e.Args[0])
		switch e.Name {
		case "!":
			return scalar(tBool, Not(v.Term))
		case "-":
			return scalar(v.T, Neg(v.Term))
		case "*":
			if v.K != KPtr {
				specFail("deref of non-pointer %s", e.Args[0])
			}
			return x.load(env.cur, v.P, v.T.Underlying().(*types.Pointer).Elem())
		}
	case "binary":
		return env.binary(e)
	case "cond":
		c := env.evalBool(e.Args[0])
		a, b := env.eval(e.Args[1]), env.eval(e.Args[2])
		a, b = x.coerceNilPair(a, b)
		return iteValue(c, a, b)
	case "forall", "exists":
		vars := map[string]*Value{}
		var bound []*Term
		var ranges []*Term
		for _, bv := range e.Bound {
			s, t := env.sortOfName(bv.Type)
			term := BoundVar("q_"+bv.Name, s)
			bound = append(bound, term)
			val := buildValue(t, func(l Leaf) *Term { return term })
			vars[bv.Name] = val
			if inv := x.typeInv(val); !inv.IsTrue() && bv.Type != "int" && bv.Type != "Int" {
				ranges = append(ranges, inv)
			}
		}
		inner := env.with(vars)
		body := inner.evalBool(e.Args[0])
		var pats [][]*Term
		for _, p := range e.Pats {
			var pt []*Term
			for _, pe := range p {
				pv := inner.eval(pe)
				var t *Term
				if pv.K == KScalar {
					t = pv.Term
				} else {
					t = leafTerms(pv)[0]
				}
				// "k in m" is (m != nil && present[m][k]): the trigger is the select
				for t.Op == "and" {
					t = t.Args[len(t.Args)-1]
				}
				pt = append(pt, t)
			}
			pats = append(pats, pt)
		}
		if e.Op == "forall" {
			// flatten  forall x :: A ==> (forall y :: B)  into one quantifier so that triggers can cover all variables
			full := Implies(And(ranges...), body)
			for {
				var ante []*Term
				cur := full
				for cur.Op == "=>" {
					ante = append(ante, cur.Args[0])
					cur = cur.Args[1]
				}
				if cur.Op != "forall" || len(e.Pats) > 0 {
					break
				}
				bound = append(bound, cur.Bound...)
				full = Implies(And(ante...), cur.Args[0])
				pats = nil
			}
			if len(pats) == 0 {
				pats = autoPatterns(bound, full)
			}
			return scalar(tBool, Forall(bound, full, pats...))
		}
		if len(pats) == 0 {
			pats = autoPatterns(bound, body)
		}
		return scalar(tBool, Exists(bound, And(append(ranges, body)...), pats...))
	case "field":
		return env.field(e)
	case "index":
		base := env.eval(e.Args[0])
		idx := env.eval(e.Args[1])
		return env.indexValue(base, idx, e)
	case "slice":
		base := env.eval(e.Args[0])
		var lo, hi *Term
		if e.Args[1] != nil {
			lo = env.eval(e.Args[1]).Term
		} else {
			lo = IntLit(0)
		}
		switch {
		case base.K == KScalar && base.Term.Sort.Kind == SStr:
			if e.Args[2] != nil {
				hi = env.eval(e.Args[2]).Term
			} else {
				hi = x.slen(base.Term)
			}
			return scalar(base.T, x.substr(base.Term, lo, hi))
		case base.K == KSlice:
			if e.Args[2] != nil {
				hi = env.eval(e.Args[2]).Term
			} else {
				hi = base.Len
			}
			return &Value{K: KSlice, T: base.T, Ref: base.Ref, Off: Add(base.Off, lo), Len: Sub(hi, lo)}
		}
		specFail("cannot slice %s", e.Args[0])
	case "call":
		return env.call(e)
	case "assert":
		v := env.eval(e.Args[0])
		t := env.lookupType(e.Name)
		if t == nil {
			specFail("unknown type %s", e.Name)
		}
		if v.K != KIface {
			specFail("type assertion on non-interface")
		}
		if _, isPtr := under(t).(*types.Pointer); isPtr {
			return &Value{K: KPtr, T: t, P: &Pointer{Base: v.IRef, ObjT: under(t).(*types.Pointer).Elem()}}
		}
		if v.Boxed != nil && types.Identical(v.Boxed.T, t) {
			return v.Boxed
		}
		if ls := leavesOf(t); len(ls) == 1 && ls[0].Sort.Kind == SRef && isRefLike(t) {
			return buildValue(t, func(l Leaf) *Term { return v.IRef })
		}
		return x.unbox(v.IRef, t)
	}
	specFail("cannot evaluate %s (%s)", e, e.Op)
	return nil
}

func (env *SpecEnv) ident(name string) *Value {
	x := env.x
	if v, ok := env.vars[name]; ok {
		return v
	}
	if env.fr != nil && env.at != nil {
		if v := x.resolveGoVar(env.fr, env.at, name, env.cur); v != nil {
			return v
		}
	}
	if s, ok := x.db.Consts[name]; ok {
		srt, t := env.sortOfName(s)
		c := x.ctx.Const("spec$"+name, srt)
		return buildValue(t, func(l Leaf) *Term { return c })
	}
	// Go package-level constants and variables
	if env.pkg != nil {
		if o := env.pkg.Scope().Lookup(name); o != nil {
			if c, ok := o.(*types.Const); ok {
				return x.constValue(ssa.NewConst(c.Val(), c.Type()))
			}
			if fo, ok := o.(*types.Func); ok {
				if sfn := x.prog.FuncValue(fo); sfn != nil {
					return &Value{K: KFunc, T: fo.Type(), Fn: sfn, Term: x.fnRef(sfn)}
				}
			}
			if gv, ok := o.(*types.Var); ok {
				if sp := x.prog.Package(env.pkg); sp != nil {
					if g, ok := sp.Members[gv.Name()].(*ssa.Global); ok {
						ptr := &Pointer{Base: x.globalRef(g.String()), ObjT: gv.Type(), Global: g.String()}
						if iv := x.globalInit(nil, env.cur, ptr, gv.Type()); iv != nil {
							return iv
						}
						return x.load(env.cur, ptr, gv.Type())
					}
				}
			}
		}
	}
	if name == "null" {
		return scalar(tRef, x.null())
	}
	specFail("unknown identifier %s", name)
	return nil
}

// resolveGoVar finds the value of source variable `name` at the start of block `at`: among the
// SSA values that go/ssa associates with the variable (debug references, phis and allocs carrying
// its name) the one defined latest on the dominator path to `at` is the reaching definition.
func (x *Exec) resolveGoVar(fr *Frame, at *ssa.BasicBlock, name string, st *State) *Value {
	// a variable captured by reference lives in its cell: its value at any point is what the cell holds there (the
	// value of its latest assignment in this closure can be stale - a callee may have assigned it since)
	for i, fv := range fr.fn.FreeVars {
		if fv.Name() == name && i < len(fr.bind) {
			if pt, ok := fv.Type().(*types.Pointer); ok && fr.bind[i].K == KPtr {
				x.noteIdentKind(fr, name, "captured")
				return x.load(st, fr.bind[i].P, pt.Elem())
			}
		}
	}
	type cand struct {
		v      ssa.Value
		isAddr bool
		depth  int
		idx    int
	}
	depthOf := func(b *ssa.BasicBlock) int {
		d := 0
		for ; b != nil; b = b.Idom() {
			d++
		}
		return d
	}
	var best *cand
	consider := func(v ssa.Value, isAddr bool) {
		var blk *ssa.BasicBlock
		idx := -1
		switch iv := v.(type) {
		case *ssa.Const:
			return // zero value recorded at the declaration; never the reaching definition we want
		case ssa.Instruction:
			blk = iv.Block()
			for i, in := range blk.Instrs {
				if in == iv {
					idx = i
				}
			}
		case *ssa.Parameter, *ssa.FreeVar:
			blk = nil
		default:
			return
		}
		if blk != nil {
			if blk == at {
				if _, isPhi := v.(*ssa.Phi); !isPhi && !(x.resolveLimit > 0 && idx < x.resolveLimit) {
					return
				}
			} else if !blk.Dominates(at) {
				return
			}
		}
		c := &cand{v: v, isAddr: isAddr, idx: idx}
		if blk != nil {
			c.depth = depthOf(blk)
		}
		if best == nil || c.depth > best.depth || (c.depth == best.depth && c.idx > best.idx) {
			best = c
		}
	}
	for _, b := range fr.fn.Blocks {
		for _, in := range b.Instrs {
			switch in := in.(type) {
			case *ssa.Phi:
				if in.Comment == name {
					consider(in, false)
				}
			case *ssa.DebugRef:
				if debugRefName(in) == name {
					if _, isIdent := in.Expr.(*ast.Ident); isIdent {
						consider(in.X, in.IsAddr)
					}
				}
			case *ssa.Alloc:
				if in.Comment == name {
					consider(in, true)
				}
			}
		}
	}
	if best != nil {
		if _, isParam := best.v.(*ssa.Parameter); !isParam {
			if _, isFV := best.v.(*ssa.FreeVar); !isFV {
				x.noteIdentKind(fr, name, "local")
				v := x.val(fr, best.v)
				if best.isAddr && v.K == KPtr {
					return x.load(st, v.P, best.v.Type().(*types.Pointer).Elem())
				}
				return v
			}
		}
	}
	for i, p := range fr.fn.Params {
		if p.Name() == name {
			x.noteIdentKind(fr, name, "param")
			return fr.params[i]
		}
	}
	for i, fv := range fr.fn.FreeVars {
		if fv.Name() == name {
			x.noteIdentKind(fr, name, "captured")
			v := fr.bind[i]
			if v.K == KPtr {
				return x.load(st, v.P, fv.Type().(*types.Pointer).Elem())
			}
			return v
		}
	}
	return nil
}

func debugRefName(d *ssa.DebugRef) string {
	if o := d.Object(); o != nil {
		return o.Name()
	}
	return ""
}

func (env *SpecEnv) binary(e *Expr) *Value {
	x := env.x
	switch e.Name {
	case "&&":
		a := env.evalBool(e.Args[0])
		if a.IsFalse() {
			return scalar(tBool, False)
		}
		return scalar(tBool, And(a, env.evalBool(e.Args[1])))
	case "||":
		a := env.evalBool(e.Args[0])
		if a.IsTrue() {
			return scalar(tBool, True)
		}
		return scalar(tBool, Or(a, env.evalBool(e.Args[1])))
	case "==>":
		a := env.evalBool(e.Args[0])
		if a.IsFalse() {
			return scalar(tBool, True)
		}
		return scalar(tBool, Implies(a, env.evalBool(e.Args[1])))
	case "<==>":
		return scalar(tBool, Iff(env.evalBool(e.Args[0]), env.evalBool(e.Args[1])))
	case "in":
		k := env.eval(e.Args[0])
		m := env.eval(e.Args[1])
		if m.K == KScalar && m.Term.Sort.Kind == SArray {
			return scalar(tBool, selectN(m.Term, leafTerms(k)))
		}
		if _, ok := under(m.T).(*types.Map); !ok {
			specFail("'in' needs a map: %s", e.Args[1])
		}
		k = env.keyFor(k, m.T)
		if os.Getenv("GVC_DEBUG") != "" {
			fmt.Fprintf(os.Stderr, "DEBUG in: map=%s key=%s has=%s\n", m.Term, leafTerms(k)[0], trunc(x.mapHas(env.cur, m.T, m.Term, k).String(), 300))
		}
		return scalar(tBool, x.mapHas(env.cur, m.T, m.Term, k))
	}
	a, b := env.eval(e.Args[0]), env.eval(e.Args[1])
	switch e.Name {
	case "==", "!=":
		a, b = x.coerceNilPair(a, b)
		var t *Term
		switch {
		case a.K == KIface && b.K == KIface:
			t = x.ifaceEq(env.cur, a, b)
		case a.K == KSlice && isNilConst(env.eval(e.Args[1])):
			t = Eq(a.Ref, x.null())
		case a.K == KFunc || b.K == KFunc:
			t = Eq(leafTerms(a)[0], leafTerms(b)[0])
		case a.K == KScalar && b.K == KScalar && a.Term.Sort.Kind == SReal && b.Term.Sort.Kind == SInt && b.Term.Op == "int":
			t = Eq(a.Term, &Term{Op: "int", Int: b.Term.Int, Sort: RealSort})
		case a.K == KScalar && b.K == KScalar && b.Term.Sort.Kind == SReal && a.Term.Sort.Kind == SInt && a.Term.Op == "int":
			t = Eq(&Term{Op: "int", Int: a.Term.Int, Sort: RealSort}, b.Term)
		default:
			t = eqValue(a, b)
		}
		if e.Name == "!=" {
			t = Not(t)
		}
		return scalar(tBool, t)
	}
	if a.K != KScalar || b.K != KScalar {
		specFail("operator %s on composite values in %s", e.Name, e)
	}
	at, bt := a.Term, b.Term
	if at.Sort.Kind == SStr && e.Name == "+" {
		return scalar(a.T, x.sconcat(at, bt))
	}
	if at.Sort.Kind == SReal || bt.Sort.Kind == SReal {
		toR := func(t *Term) *Term {
			if t.Sort.Kind == SInt {
				if t.Op == "int" {
					return &Term{Op: "int", Int: t.Int, Sort: RealSort}
				}
				return &Term{Op: "to_real", Args: []*Term{t}, Sort: RealSort}
			}
			return t
		}
		at, bt = toR(at), toR(bt)
		switch e.Name {
		case "<", "<=", ">", ">=":
			return scalar(tBool, &Term{Op: e.Name, Args: []*Term{at, bt}, Sort: BoolSort})
		case "+", "-", "*", "/":
			return scalar(types.Typ[types.Float64], mk(e.Name, RealSort, at, bt))
		}
	}
	switch e.Name {
	case "<", "<=", ">", ">=":
		return scalar(tBool, Cmp(e.Name, at, bt))
	case "+":
		return scalar(a.T, Add(at, bt))
	case "-":
		return scalar(a.T, Sub(at, bt))
	case "*":
		return scalar(a.T, Mul(at, bt))
	case "/":
		return scalar(a.T, idiv(at, bt))
	case "%":
		return scalar(a.T, imod(at, bt))
	case "&", "|":
		op := token.AND
		if e.Name == "|" {
			op = token.OR
		}
		if bt.Op == "int" {
			return scalar(a.T, x.bitopConst(op, at, bt.Int, 64))
		}
		if at.Op == "int" {
			return scalar(a.T, x.bitopConst(op, bt, at.Int, 64))
		}
	}
	specFail("unsupported operator %s", e.Name)
	return nil
}

// keyFor adapts a spec value to the key type of map type mt (e.g. Str for a named string type).
func (env *SpecEnv) keyFor(k *Value, mt types.Type) *Value {
	kt := under(mt).(*types.Map).Key()
	ts := leafTerms(k)
	ls := leavesOf(kt)
	if len(ts) != len(ls) {
		specFail("map key shape mismatch")
	}
	i := 0
	return buildValue(kt, func(l Leaf) *Term { t := ts[i]; i++; return t })
}

func (env *SpecEnv) deref(v *Value) *Value {
	if v.K == KPtr {
		return env.x.load(env.cur, v.P, derefType(v))
	}
	return v
}

func derefType(v *Value) types.Type {
	if pt, ok := under(v.T).(*types.Pointer); ok {
		return pt.Elem()
	}
	if v.P != nil && v.P.ObjT != nil {
		return typeAtPath(v.P.ObjT, v.P.Path)
	}
	panic("derefType")
}

func (env *SpecEnv) field(e *Expr) *Value {
	x := env.x
	// pkg.Name : a package-level function, constant or variable of another package
	if e.Args[0].Op == "ident" {
		if _, isVar := env.vars[e.Args[0].Name]; !isVar {
			for _, sp := range x.prog.AllPackages() {
				if sp.Pkg.Name() == e.Args[0].Name {
					if o := sp.Pkg.Scope().Lookup(e.Name); o != nil {
						sub := *env
						sub.pkg = sp.Pkg
						sub.fr = nil
						sub.at = nil
						sub.vars = map[string]*Value{}
						return sub.ident(e.Name)
					}
				}
			}
		}
	}
	base := env.eval(e.Args[0])
	t := base.T
	if base.K == KPtr {
		t = derefType(base)
	}
	obj, index, _ := types.LookupFieldOrMethod(t, true, env.pkgOf(t), e.Name)
	fld, ok := obj.(*types.Var)
	if !ok || fld == nil {
		specFail("no field %s in %s", e.Name, t)
	}
	cur := base
	ct := t // type of the struct currently being indexed (never a pointer)
	for _, fi := range index {
		st, isStruct := under(ct).(*types.Struct)
		if !isStruct {
			specFail("field %s of non-struct %s", e.Name, e.Args[0])
		}
		ft := st.Field(fi).Type()
		switch cur.K {
		case KPtr:
			if cur.P.Cell != nil {
				cur = x.load(env.cur, cur.P, derefType(cur)).Fields[fi]
			} else {
				np := *cur.P
				np.Path = append(append([]PathElem(nil), cur.P.Path...), PathElem{Field: fi})
				if np.ObjT == nil {
					np.ObjT = ct
				}
				cur = x.load(env.cur, &np, ft)
			}
		case KStruct:
			cur = cur.Fields[fi]
		default:
			specFail("field %s of non-struct %s", e.Name, e.Args[0])
		}
		// continue through embedded pointers
		if pt, isPtr := under(ft).(*types.Pointer); isPtr {
			ct = pt.Elem()
		} else {
			ct = ft
		}
	}
	return cur
}

func (env *SpecEnv) pkgOf(t types.Type) *types.Package {
	if n, ok := t.(*types.Named); ok && n.Obj().Pkg() != nil {
		return n.Obj().Pkg()
	}
	return env.pkg
}

func (env *SpecEnv) indexValue(base, idx *Value, e *Expr) *Value {
	x := env.x
	if base.K == KTuple {
		if idx.Term == nil || idx.Term.Op != "int" || !idx.Term.Int.IsInt64() || int(idx.Term.Int.Int64()) >= len(base.Fields) {
			specFail("result tuple must be indexed by a literal: %s", e)
		}
		return base.Fields[idx.Term.Int.Int64()]
	}
	switch {
	case base.K == KSlice:
		et := under(base.T).(*types.Slice).Elem()
		p := &Pointer{Base: base.Ref, ObjT: et, Elem: true, Idx: Add(base.Off, idx.Term)}
		return x.load(env.cur, p, et)
	case base.K == KScalar && base.Term.Sort.Kind == SStr:
		return scalar(types.Typ[types.Uint8], x.sat(base.Term, idx.Term))
	case base.K == KScalar && base.Term.Sort.Kind == SArray:
		r := selectN(base.Term, leafTerms(idx))
		return &Value{K: KScalar, T: nil, Term: r}
	case base.K == KArray:
		et := under(base.T).(*types.Array).Elem()
		return mapLeavesT(base.Elems, et, func(t *Term) *Term { return Select(t, idx.Term) })
	case base.K == KPtr:
		return env.indexValue(env.deref(base), idx, e)
	}
	if _, ok := under(base.T).(*types.Map); ok {
		return x.mapGet(env.cur, base.T, base.Term, env.keyFor(idx, base.T))
	}
	specFail("cannot index %s", e)
	return nil
}

func (env *SpecEnv) call(e *Expr) *Value {
	x := env.x
	fn := e.Args[0]
	args := e.Args[1:]
	if fn.Op == "field" {
		return env.methodCall(fn, args)
	}
	if fn.Op != "ident" {
		specFail("cannot call %s", fn)
	}
	name := fn.Name
	switch name {
	case "len":
		v := env.eval(args[0])
		if v.K == KPtr {
			v = env.deref(v)
		}
		switch {
		case v.K == KSlice:
			return scalar(tInt, v.Len)
		case v.K == KScalar && v.Term.Sort.Kind == SStr:
			return scalar(tInt, x.slen(v.Term))
		case v.K == KArray:
			return specInt(under(v.T).(*types.Array).Len())
		}
		if _, ok := under(v.T).(*types.Map); ok {
			return scalar(tInt, Ite(Eq(v.Term, x.null()), IntLit(0), x.mapLen(env.cur, v.T, v.Term)))
		}
		specFail("len of %s", args[0])
	case "jmerge":
		// jmerge(base, doc): base after decoding doc into it (JSON law)
		base := env.eval(args[0])
		if base.K == KPtr {
			base = env.deref(base)
		}
		dv := env.eval(args[1])
		var d *Term
		if dv.K == KSlice {
			d = x.bytesToStr(env.cur, dv)
		} else {
			d = dv.Term
		}
		x.trusted[jsonLaw] = true
		return x.jsonMerge(base.T, d, base)
	case "jokAs":
		base := env.eval(args[0])
		if base.K == KPtr {
			base = env.deref(base)
		}
		dv := env.eval(args[1])
		var d *Term
		if dv.K == KSlice {
			d = x.bytesToStr(env.cur, dv)
		} else {
			d = dv.Term
		}
		return scalar(tBool, x.jok(base.T, d))
	case "jsonKeys":
		// jsonKeys(T): the JSON object keys encoding/json reads and writes for struct type T,
		// sorted and comma-separated (computed from the struct tags on every run)
		t := env.lookupType(exprTypeName(args[0]))
		if t == nil {
			specFail("jsonKeys: unknown type %s", args[0])
		}
		st, ok := under(t).(*types.Struct)
		if !ok {
			specFail("jsonKeys: %s is not a struct", args[0])
		}
		var keys []string
		for i := 0; i < st.NumFields(); i++ {
			if st.Field(i).Anonymous() {
				specFail("jsonKeys: embedded fields are not supported")
			}
			if k, use := jsonKey(st.Field(i), st.Tag(i)); use {
				keys = append(keys, k)
			}
		}
		sort.Strings(keys)
		x.trusted[jsonLaw] = true
		return scalar(tStr, x.strLit(strings.Join(keys, ",")))
	case "jsonVerbatimKeys":
		// jsonVerbatimKeys(T): the JSON object keys of struct type T whose fields hold the member's raw
		// bytes (spec.RawJSON / json.RawMessage): encoding/json stores such a member byte for byte when it
		// is present - including "" and null - and writes it back unchanged; omitempty drops it only when
		// it was absent. Fields of any other type (string, interface{}, numbers) lose or reject some values.
		t := env.lookupType(exprTypeName(args[0]))
		if t == nil {
			specFail("jsonVerbatimKeys: unknown type %s", args[0])
		}
		st, ok := under(t).(*types.Struct)
		if !ok {
			specFail("jsonVerbatimKeys: %s is not a struct", args[0])
		}
		var keys []string
		for i := 0; i < st.NumFields(); i++ {
			if st.Field(i).Anonymous() {
				specFail("jsonVerbatimKeys: embedded fields are not supported")
			}
			k, use := jsonKey(st.Field(i), st.Tag(i))
			if !use {
				continue
			}
			if nt, ok := st.Field(i).Type().(*types.Named); ok && nt.Obj().Pkg() != nil {
				q := nt.Obj().Pkg().Path() + "." + nt.Obj().Name()
				if q == "github.com/matrix-org/gomatrixserverlib/spec.RawJSON" || q == "encoding/json.RawMessage" {
					keys = append(keys, k)
				}
			}
		}
		sort.Strings(keys)
		x.trusted[jsonLaw] = true
		return scalar(tStr, x.strLit(strings.Join(keys, ",")))
	case "setfield":
		// setfield(s, "F", v): struct value s with field F replaced by v
		sv := env.eval(args[0])
		if sv.K == KPtr {
			sv = env.deref(sv)
		}
		st, ok := under(sv.T).(*types.Struct)
		if !ok || sv.K != KStruct || args[1].Op != "str" {
			specFail("setfield(struct, \"Field\", value)")
		}
		nv := env.eval(args[2])
		out := &Value{K: KStruct, T: sv.T, Fields: append([]*Value(nil), sv.Fields...)}
		for i := 0; i < st.NumFields(); i++ {
			if st.Field(i).Name() == args[1].Name {
				if isNilConst(nv) {
					nv = x.zeroValue(st.Field(i).Type())
				}
				out.Fields[i] = nv
				return out
			}
		}
		specFail("setfield: no field %s", args[1].Name)
	case "jhas", "jok", "jfield", "jstr", "jint", "jbool", "jdecoded", "jstrs", "jmapint":
		return env.specJSON(name, args)
	case "tuple":
		// tuple(a, b, ...): a composite key (e.g. for maps keyed by a struct)
		v := &Value{K: KTuple}
		for _, a := range args {
			v.Fields = append(v.Fields, env.eval(a))
		}
		return v
	case "zero":
		t := env.lookupType(exprTypeName(args[0]))
		if t == nil {
			specFail("zero: unknown type %s", args[0])
		}
		return x.zeroValue(t)
	case "opaque":
		// opaque(T, "name", args...): an unspecified but fixed value of Go type T determined by the arguments
		t := env.lookupType(exprTypeName(args[0]))
		if t == nil || args[1].Op != "str" {
			specFail("opaque(T, \"name\", args...)")
		}
		var ats []*Term
		for _, a := range args[2:] {
			ats = append(ats, leafTerms(env.eval(a))...)
		}
		nm := args[1].Name
		v := buildValue(t, func(l Leaf) *Term {
			return x.ctx.App("op$"+sanitize(nm)+"$"+sanitize(l.Path), l.Sort, ats...)
		})
		if !termsHaveBoundVar(ats) {
			x.facts = append(x.facts, x.typeInv(v))
			x.assumeZeroOffsetsQuiet(v)
		}
		return v
	case "extcall":
		// extcall("pkg.Func", args...): the result the pure extern yields for these arguments
		if len(args) < 1 || args[0].Op != "str" {
			specFail("extcall needs a function name")
		}
		fnName := args[0].Name
		ec, ok := x.db.Externs[fnName]
		fn := x.allFuncs[fnName]
		if !ok || !ec.Pure || fn == nil {
			specFail("extcall: %s is not a pure extern", fnName)
		}
		var avs []*Value
		for i, a := range args[1:] {
			v := env.eval(a)
			if i < len(fn.Params) {
				pt := fn.Params[i].Type()
				if _, isIface := under(pt).(*types.Interface); isIface && v.K != KIface {
					v = x.makeInterface(env.cur, v, v.T, pt)
				}
			}
			avs = append(avs, v)
		}
		var resT types.Type = fn.Signature.Results()
		if fn.Signature.Results().Len() == 1 {
			resT = fn.Signature.Results().At(0).Type()
		}
		ats := x.pureArgTerms(env.cur, avs)
		i := 0
		res := buildValue(resT, func(l Leaf) *Term {
			t := x.ctx.App(fmt.Sprintf("f$%s$%d", sanitize(fnName), i), l.Sort, ats...)
			i++
			return t
		})
		return res
	case "get":
		// get(m, k): the value stored for k (unspecified when k is absent) — no zero-value fallback
		m := env.eval(args[0])
		if m.K == KPtr {
			m = env.deref(m)
		}
		if _, ok := under(m.T).(*types.Map); !ok {
			specFail("get: not a map")
		}
		return x.mapGetRaw(env.cur, m.T, m.Term, env.keyFor(env.eval(args[1]), m.T))
	case "indexByte":
		return scalar(tInt, x.indexByte(env.eval(args[0]).Term, env.eval(args[1]).Term))
	case "lastIndexByte":
		return scalar(tInt, x.lastIndexByte(env.eval(args[0]).Term, env.eval(args[1]).Term))
	case "hasPrefix":
		return scalar(tBool, x.hasPrefixTerm(env.eval(args[0]).Term, env.eval(args[1]).Term))
	case "hasSuffix":
		return scalar(tBool, x.hasSuffixTerm(env.eval(args[0]).Term, env.eval(args[1]).Term))
	case "substr":
		return scalar(tStr, x.substr(env.eval(args[0]).Term, env.eval(args[1]).Term, env.eval(args[2]).Term))
	case "str":
		v := env.eval(args[0])
		if v.K == KSlice {
			return scalar(tStr, x.bytesToStr(env.cur, v))
		}
		if v.K == KScalar && v.Term.Sort.Kind == SStr {
			return scalar(tStr, v.Term)
		}
		specFail("str() of non-bytes")
	case "idx":
		n := mustInt(args[0])
		return env.loopIdx(n)
	case "seen":
		n := mustInt(args[0])
		return env.loopSeen(n)
	case "chanSent", "chanCap", "chanClosed", "wgExpected", "wgSpawned", "wgDone":
		// ghost synchronisation state (concurrency.go)
		var v *Value
		if args[0].Op == "ident" && env.fr != nil {
			// a local variable of struct type (var wg sync.WaitGroup): its address
			v = env.addrOfLocal(args[0].Name)
		}
		if v == nil {
			v = env.eval(args[0])
		}
		var ref *Term
		switch {
		case v.K == KPtr && v.P.Cell == nil:
			ref = ptrAsRef(v.P)
		case v.K == KScalar && v.Term.Sort.Kind == SRef:
			ref = v.Term
		default:
			specFail("%s needs a channel or a *sync.WaitGroup", name)
		}
		switch name {
		case "chanSent":
			return scalar(tInt, x.ghostGet(env.cur, gChSent, IntSort, ref))
		case "chanCap":
			return scalar(tInt, x.ghostGet(env.cur, gChCap, IntSort, ref))
		case "chanClosed":
			return scalar(tBool, x.ghostGet(env.cur, gChClosed, BoolSort, ref))
		case "wgExpected":
			return scalar(tInt, x.ghostGet(env.cur, gWgAdd, IntSort, ref))
		case "wgSpawned":
			return scalar(tInt, x.ghostGet(env.cur, gWgSpawn, IntSort, ref))
		default:
			return scalar(tInt, x.ghostGet(env.cur, gWgDone, IntSort, ref))
		}
	case "count":
		// count(N): number of keys the map range loop N has yielded so far (ghost)
		n := mustInt(args[0])
		li := env.loopOf(n)
		for _, in := range li.header.Instrs {
			if nx, ok := in.(*ssa.Next); ok {
				if it := env.fr.iters[nx.Iter]; it != nil && it.cnt != nil {
					if v, ok := env.cur.cells[it.cnt]; ok {
						return v
					}
				}
			}
		}
		specFail("count(%d): loop is not a map range", n)
	case "strpos":
		// byte position of the iterator of range-over-string loop N
		n := mustInt(args[0])
		v := env.loopSeen(n)
		return scalar(tInt, v.Term)
	case "called":
		n := exprTypeName(args[0])
		if args[0].Op == "str" {
			n = args[0].Name
		}
		c, ok := x.calledCells[n]
		if !ok {
			specFail("called(%s): not tracked", n)
		}
		v, ok := env.cur.cells[c]
		if !ok {
			return scalar(tBool, False)
		}
		return v
	case "locked":
		// locked(s, "mu"): this thread holds the monitored mutex field mu of struct *s (ghost)
		sv := env.eval(args[0])
		if sv.K != KPtr || args[1].Op != "str" {
			specFail("locked(ptr, \"mutexField\")")
		}
		m := x.db.Monitors[structName(derefType(sv))+"."+args[1].Name]
		if m == nil {
			specFail("locked: no monitor %s.%s", structName(derefType(sv)), args[1].Name)
		}
		return scalar(tBool, x.heldTerm(env.cur, m, sv.P.Base))
	case "athead":
		// athead(N, expr): expr in the state at the head of the current iteration of the enclosing loop N
		n := mustInt(args[0])
		li := env.loopOf(n)
		if li.headState == nil {
			specFail("athead(%d, ..): loop %d is not being executed here", n, n)
		}
		ne := *env
		ne.cur = li.headState
		// Go variables denote their values at that loop head (its phis), not the values reaching the clause
		ne.at = li.header
		ne.li = li
		return ne.eval(args[1])
	case "ncalls":
		// ncalls(F): how many times F has been called so far (static calls)
		n := exprTypeName(args[0])
		if args[0].Op == "str" {
			n = args[0].Name
		}
		c, ok := x.ncallCells[n]
		if !ok {
			specFail("ncalls(%s): not tracked", n)
		}
		v, ok := env.cur.cells[c]
		if !ok {
			return scalar(tInt, IntLit(0))
		}
		return v
	case "after":
		// after(F, expr): expr evaluated in the state right after the most recent call of F
		n := exprTypeName(args[0])
		if args[0].Op == "str" {
			n = args[0].Name
		}
		snap, ok := env.cur.snaps[n]
		if !ok {
			specFail("after(%s, ...): no call of %s common to every path to this point", n, n)
		}
		ne := *env
		ne.cur = snap
		return ne.eval(args[1])
	case "arg":
		// arg(F, i): the i-th argument of the most recent call of F
		n := exprTypeName(args[0])
		if args[0].Op == "str" {
			n = args[0].Name
		}
		c, ok := x.argCells[fmt.Sprintf("%s#%d", n, mustInt(args[1]))]
		if !ok {
			specFail("arg(%s, %d): callee never called", n, mustInt(args[1]))
		}
		v, ok := env.cur.cells[c]
		if !ok {
			specFail("arg(%s): callee not called on any path to this point", n)
		}
		return v
	case "ret":
		n := exprTypeName(args[0])
		if args[0].Op == "str" {
			n = args[0].Name
		}
		c, ok := x.retCells[n]
		if !ok {
			specFail("ret(%s): not tracked", n)
		}
		v, ok := env.cur.cells[c]
		if !ok && c.T != nil {
			// not called on the path(s) reaching this point: the value is unspecified (clauses guard it with
			// called(F) / ncalls(F)); an arbitrary value of the result type keeps the clause well-formed
			v, ok = x.freshValue("ret_uncalled$"+n, c.T, env.cur.guard), true
		}
		if !ok {
			specFail("ret(%s): callee not called on every path to this point (guard with called(%s))", n, n)
		}
		if len(args) > 1 {
			k := mustInt(args[1])
			if v.K != KTuple || k >= len(v.Fields) {
				specFail("ret(%s, %d): no such result", n, k)
			}
			return v.Fields[k]
		}
		return v
	case "typeOf":
		v := env.eval(args[0])
		if v.K != KIface {
			specFail("typeOf on non-interface")
		}
		return scalar(tInt, v.Tag)
	case "typeTag":
		t := env.lookupType(exprTypeName(args[0]))
		if t == nil {
			specFail("unknown type %s", args[0])
		}
		return scalar(tInt, x.typeTag(t))
	case "isType":
		v := env.eval(args[0])
		t := env.lookupType(exprTypeName(args[1]))
		if t == nil {
			specFail("unknown type %s", args[1])
		}
		return scalar(tBool, Eq(v.Tag, x.typeTag(t)))
	case "ref":
		v := env.eval(args[0])
		switch v.K {
		case KPtr:
			return scalar(tRef, ptrAsRef(v.P))
		case KSlice:
			return scalar(tRef, v.Ref)
		case KIface:
			return scalar(tRef, v.IRef)
		}
		return scalar(tRef, v.Term)
	case "fresh":
		v := env.eval(args[0])
		x.useAxioms("alloc")
		return scalar(tBool, Gt(x.ctx.App("allocId", IntSort, leafTerms(v)[0]), IntLit(0)))
	case "min":
		a, b := env.eval(args[0]).Term, env.eval(args[1]).Term
		return scalar(tInt, Ite(Le(a, b), a, b))
	case "max":
		a, b := env.eval(args[0]).Term, env.eval(args[1]).Term
		return scalar(tInt, Ite(Ge(a, b), a, b))
	case "int":
		return env.eval(args[0])
	case "string":
		v := env.eval(args[0])
		if v.K == KSlice {
			return scalar(tStr, x.bytesToStr(env.cur, v))
		}
		return scalar(tStr, v.Term)
	}
	if fvv, isVar := env.vars[name]; isVar && fvv.K == KFunc && fvv.T != nil && x.pureFuncType(fvv.T) {
		var avs []*Value
		for _, a := range args {
			avs = append(avs, env.eval(a))
		}
		sig := under(fvv.T).(*types.Signature)
		var resT types.Type = sig.Results()
		if sig.Results().Len() == 1 {
			resT = sig.Results().At(0).Type()
		}
		x.lawState = env.cur
		return x.pureFuncCall(fvv, fvv.T, avs, resT)
	}
	if fvv, isVar := env.vars[name]; isVar && fvv.K == KFunc && fvv.Term != nil && fvv.T != nil && !x.pureFuncType(fvv.T) && x.rootFrame != nil && x.rootFrame.contract != nil && x.rootFrame.contract.PureCallbacks {
		sig, isSig := under(fvv.T).(*types.Signature)
		if isSig {
			ts := []*Term{fvv.Term}
			for _, a := range args {
				ts = append(ts, leafTerms(env.eval(a))...)
			}
			var resT types.Type = sig.Results()
			if sig.Results().Len() == 1 {
				resT = sig.Results().At(0).Type()
			}
			i := 0
			sigName := sanitize(shortType(fvv.T))
			return buildValue(resT, func(l Leaf) *Term {
				r := x.ctx.App(fmt.Sprintf("cb$%s$%d", sigName, i), l.Sort, ts...)
				i++
				return r
			})
		}
	}
	if sf, ok := x.db.Funs[name]; ok {
		if len(sf.Params) != len(args) {
			specFail("%s expects %d arguments", name, len(sf.Params))
		}
		vars := map[string]*Value{}
		for i, p := range sf.Params {
			vars[p] = env.eval(args[i])
		}
		// macros see only their parameters (plus state)
		n := *env
		n.vars = vars
		if !sf.Inline {
			if r := env.namedSpecFun(sf, vars); r != nil {
				return r
			}
		}
		if !exprHasQuantifier(sf.Body, x.db) {
			return n.eval(sf.Body)
		}
		// quantified macros are named: f(args, heap) with a ground defining fact, so that
		// congruence can relate two uses without looking inside the quantifier
		saved := x.heapReads
		x.heapReads = []heapRead{}
		body := n.eval(sf.Body)
		reads := x.heapReads
		x.heapReads = saved
		if saved != nil {
			x.heapReads = append(x.heapReads, reads...)
		}
		if body.K != KScalar {
			return body
		}
		var ts []*Term
		for _, p := range sf.Params {
			v := vars[p]
			if isNilConst(v) || (v.K == KFunc && v.Term == nil) {
				continue
			}
			ts = append(ts, leafTerms(v)...)
		}
		seen := map[string]bool{}
		for _, r := range reads {
			t := x.heapArr(r.st, r.key, x.heapSort[r.key])
			if !seen[t.String()] {
				seen[t.String()] = true
				ts = append(ts, t)
			}
		}
		for _, t := range ts {
			if termHasBoundVar(t) {
				return body
			}
		}
		var sig []string
		for _, t := range ts {
			sig = append(sig, t.Sort.String())
		}
		app := x.ctx.App(fmt.Sprintf("of$%s$%x", name, hashString(strings.Join(sig, ","))), body.Term.Sort, ts...)
		x.facts = append(x.facts, Eq(app, body.Term))
		return scalar(body.T, app)
	}
	if uf, ok := x.db.UFuns[name]; ok {
		var ts []*Term
		for _, a := range args {
			v := env.eval(a)
			if isNilConst(v) {
				ts = append(ts, x.null())
				continue
			}
			ts = append(ts, leafTerms(v)...)
		}
		if len(ts) != len(uf.Args) {
			specFail("%s expects %d leaf arguments, got %d", name, len(uf.Args), len(ts))
		}
		rs, rt := env.sortOfName(uf.Res)
		for i, a := range uf.Args {
			as, _ := env.sortOfName(a)
			if !sameSort(as, ts[i].Sort) {
				specFail("%s: argument %d has sort %s, expected %s", name, i+1, ts[i].Sort, as)
			}
		}
		x.useAxioms("spec")
		r := x.ctx.App("u$"+name, rs, ts...)
		return buildValue(rt, func(l Leaf) *Term { return r })
	}
	// type conversion like spec.SenderID(x) / int64(x): identity on leaves
	if t := env.lookupType(name); t != nil && len(args) == 1 {
		v := env.eval(args[0])
		return x.retype(v, t)
	}
	specFail("unknown function %s", name)
	return nil
}

func exprTypeName(e *Expr) string {
	switch e.Op {
	case "str":
		return e.Name
	case "ident":
		return e.Name
	case "field":
		return exprTypeName(e.Args[0]) + "." + e.Name
	case "unary":
		if e.Name == "*" {
			return "*" + exprTypeName(e.Args[0])
		}
	case "paren":
		return exprTypeName(e.Args[0])
	}
	return e.String()
}

func mustInt(e *Expr) int {
	if e.Op != "int" {
		specFail("expected literal integer")
	}
	n, _ := strconv.Atoi(e.Int)
	return n
}

// methodCall evaluates recv.Method(args): pure interface accessors become uninterpreted
// functions of the receiver; concrete methods with a body in the repository are executed
// symbolically (they must not write to the heap).
func (env *SpecEnv) methodCall(fn *Expr, args []*Expr) *Value {
	x := env.x
	// package-qualified spec/ufun call: pkg.Name(...)
	if fn.Args[0].Op == "ident" {
		if _, isVar := env.vars[fn.Args[0].Name]; !isVar {
			q := fn.Args[0].Name + "." + fn.Name
			if t := env.lookupType(q); t != nil && len(args) == 1 {
				return x.retype(env.eval(args[0]), t)
			}
		}
	}
	recv := env.eval(fn.Args[0])
	var avs []*Value
	for _, a := range args {
		avs = append(avs, env.eval(a))
	}
	if recv.K == KIface {
		it, ok := under(recv.T).(*types.Interface)
		if !ok {
			specFail("method call on non-interface %s", fn.Args[0])
		}
		for i := 0; i < it.NumMethods(); i++ {
			m := it.Method(i)
			if m.Name() == fn.Name {
				x.accessorState = env.cur
				return x.ifaceAccessor(recv, m, avs)
			}
		}
		specFail("no method %s on %s", fn.Name, recv.T)
	}
	// a field of a pure func type: apply it
	{
		bt := recv.T
		if recv.K == KPtr {
			bt = derefType(recv)
		}
		if o, _, _ := types.LookupFieldOrMethod(bt, true, env.pkgOf(bt), fn.Name); o != nil {
			if fld, isVar := o.(*types.Var); isVar && x.pureFuncType(fld.Type()) {
				fv := env.field(fn)
				sig := under(fld.Type()).(*types.Signature)
				var resT types.Type = sig.Results()
				if sig.Results().Len() == 1 {
					resT = sig.Results().At(0).Type()
				}
				x.lawState = env.cur
				return x.pureFuncCall(fv, fld.Type(), avs, resT)
			}
			if fld, isVar := o.(*types.Var); isVar && x.rootFrame != nil && x.rootFrame.contract != nil && x.rootFrame.contract.PureCallbacks {
				if sig, isSig := under(fld.Type()).(*types.Signature); isSig {
					fv := env.field(fn)
					var resT types.Type = sig.Results()
					if sig.Results().Len() == 1 {
						resT = sig.Results().At(0).Type()
					}
					return x.callbackCall(fv, fld.Type(), avs, resT)
				}
			}
		}
	}
	// concrete method
	t := recv.T
	obj, _, _ := types.LookupFieldOrMethod(t, true, env.pkgOf(t), fn.Name)
	m, ok := obj.(*types.Func)
	if !ok {
		if recv.K == KPtr {
			obj, _, _ = types.LookupFieldOrMethod(derefType(recv), true, env.pkgOf(derefType(recv)), fn.Name)
			m, ok = obj.(*types.Func)
		}
		if !ok {
			specFail("no method %s on %s", fn.Name, t)
		}
	}
	sfn := x.prog.FuncValue(m)
	if sfn == nil || sfn.Blocks == nil {
		specFail("method %s has no body", fn.Name)
	}
	// adapt receiver (value vs pointer)
	recvT := sfn.Signature.Recv().Type()
	rv := recv
	if _, wantPtr := under(recvT).(*types.Pointer); !wantPtr && recv.K == KPtr {
		rv = env.deref(recv)
	}
	// a method with an assumed (extern) contract denotes the same thing in specifications as in code
	if ec, ok := x.db.Externs[sfn.String()]; ok {
		st := env.cur.clone()
		st.guard = True
		saveObl := len(x.obls)
		var resT types.Type = sfn.Signature.Results()
		if sfn.Signature.Results().Len() == 1 {
			resT = sfn.Signature.Results().At(0).Type()
		}
		fr := env.fr
		if fr == nil {
			fr = x.rootFrame
		}
		r := x.applyContract(fr, st, ec, sfn, append([]*Value{rv}, avs...), resT, token.NoPos, sfn.String())
		x.obls = x.obls[:saveObl]
		if r == nil {
			return &Value{K: KTuple}
		}
		return r
	}
	if !x.inRepo(sfn) {
		specFail("method %s of a dependency has no assumed contract (bodies outside the repository are never entered)", sfn.String())
	}
	st := env.cur.clone()
	st.guard = True
	saveObl, saveSafety := len(x.obls), x.safety
	x.safety = false
	x.discover++
	_, res := x.execFunction(sfn, st, append([]*Value{rv}, avs...), nil, nil, false, 1)
	x.discover--
	x.safety = saveSafety
	x.obls = x.obls[:saveObl]
	if len(res) == 1 {
		return res[0]
	}
	return &Value{K: KTuple, Fields: res}
}

// ifaceAccessor: result of a pure interface method as uninterpreted functions of (tag, ref, args).
func (x *Exec) ifaceAccessor(recv *Value, m *types.Func, args []*Value) *Value {
	sig := m.Type().(*types.Signature)
	it := recv.T
	if def, ok := x.db.MethodDefs[shortType(it)+"."+m.Name()]; ok && x.accessorState != nil {
		vars := map[string]*Value{"recv": recv}
		for i, p := range def.Params {
			if i < len(args) {
				vars[p] = args[i]
			}
		}
		x.trusted["interface method "+shortType(it)+"."+m.Name()+" is defined by its specification in terms of the other accessors"] = true
		env := &SpecEnv{x: x, vars: vars, cur: x.accessorState, old: x.accessorState, pkg: m.Pkg()}
		return env.eval(def.Body)
	}
	base := "m$" + sanitize(shortType(it)) + "." + m.Name()
	ts := []*Term{recv.IRef}
	for _, a := range args {
		ts = append(ts, leafTerms(a)...)
	}
	mk := func(rt types.Type, k int) *Value {
		v := buildValue(rt, func(l Leaf) *Term {
			return x.ctx.App(fmt.Sprintf("%s$%d$%s", base, k, sanitize(l.Path)), l.Sort, ts...)
		})
		if !termsHaveBoundVar(ts) {
			x.assumeTypeInv(v, True)
		}
		x.zeroOffsetsStructural(v)
		return v
	}
	x.trusted["interface method "+shortType(it)+"."+m.Name()+" is a pure, deterministic accessor of its receiver"] = true
	var out *Value
	switch sig.Results().Len() {
	case 0:
		return &Value{K: KTuple}
	case 1:
		out = mk(sig.Results().At(0).Type(), 0)
	default:
		out = &Value{K: KTuple, T: sig.Results()}
		for i := 0; i < sig.Results().Len(); i++ {
			out.Fields = append(out.Fields, mk(sig.Results().At(i).Type(), i))
		}
	}
	// assumed law of the interface method (to be verified on the implementations)
	mkey := shortType(it) + "." + m.Name()
	if law, ok := x.db.MethodLaws[mkey]; ok && x.accessorState != nil && !termsHaveBoundVar(ts) && !x.inLaw[mkey] {
		x.inLaw[mkey] = true
		vars := map[string]*Value{"recv": recv, "result": out}
		for i, a := range args {
			vars[fmt.Sprintf("arg%d", i)] = a
		}
		env := &SpecEnv{x: x, vars: vars, cur: x.accessorState, old: x.accessorState, pkg: m.Pkg()}
		func() {
			defer func() {
				if r := recover(); r != nil {
					if _, isSpec := r.(specErr); !isSpec {
						delete(x.inLaw, mkey)
						panic(r)
					}
				}
			}()
			x.facts = append(x.facts, env.evalBool(law))
		}()
		delete(x.inLaw, mkey)
		x.trusted["law of "+mkey+": "+law.String()] = true
	}
	return out
}

func (env *SpecEnv) loopOf(n int) *loopInfo {
	if env.fr == nil {
		specFail("idx/seen outside a function body")
	}
	for _, li := range env.fr.loops {
		if li.ordinal == n {
			return li
		}
	}
	specFail("no loop %d in %s", n, env.fr.fn.Name())
	return nil
}

// loopIdx: number of completed iterations of range-over-slice loop n (rangeindex phi + 1).
func (env *SpecEnv) loopIdx(n int) *Value {
	li := env.loopOf(n)
	for _, in := range li.header.Instrs {
		if phi, ok := in.(*ssa.Phi); ok && phi.Comment == "rangeindex" {
			return scalar(tInt, Add(env.x.val(env.fr, phi).Term, IntLit(1)))
		}
	}
	// the same loop written with an explicit counter (`for i := 0; i < len(s); i++`): the counter is the number
	// of completed iterations
	var cand *ssa.Phi
	for _, in := range li.header.Instrs {
		phi, ok := in.(*ssa.Phi)
		if !ok {
			break
		}
		if lo, ok := countingPhi(phi, li); ok && lo == 0 {
			if st, ok2 := phiStep(phi); ok2 && st == 1 {
				if cand != nil {
					cand = nil // two counters: ambiguous
					break
				}
				cand = phi
			}
		}
	}
	if cand != nil {
		return scalar(tInt, env.x.val(env.fr, cand).Term)
	}
	specFail("loop %d has no range index", n)
	return nil
}

// loopSeen: set of map keys already yielded by the iterator of loop n.
func (env *SpecEnv) loopSeen(n int) *Value {
	li := env.loopOf(n)
	for b := range li.body {
		for _, in := range b.Instrs {
			if nx, ok := in.(*ssa.Next); ok {
				// the Next of this loop is in its header
				if b != li.header {
					continue
				}
				it := env.fr.iters[nx.Iter]
				if it == nil {
					specFail("iterator of loop %d not initialised", n)
				}
				v, ok := env.cur.cells[it.cell]
				if !ok {
					specFail("iterator state missing")
				}
				return v
			}
		}
	}
	specFail("loop %d is not a map range", n)
	return nil
}

func constToValue(x *Exec, c constant.Value, t types.Type) *Value {
	return x.constValue(ssa.NewConst(c, t))
}

func exprHasQuantifier(e *Expr, db *SpecDB) bool {
	if e == nil {
		return false
	}
	if e.Op == "forall" || e.Op == "exists" {
		return true
	}
	if e.Op == "call" && e.Args[0].Op == "ident" {
		if sf, ok := db.Funs[e.Args[0].Name]; ok && exprHasQuantifier(sf.Body, db) {
			return true
		}
	}
	for _, a := range e.Args {
		if exprHasQuantifier(a, db) {
			return true
		}
	}
	return false
}

// termHasBoundVar reports whether t mentions a quantifier variable that is not bound inside t.
func termHasBoundVar(t *Term) bool {
	return hasFreeVar(t, nil)
}

func hasFreeVar(t *Term, bound map[string]bool) bool {
	switch t.Op {
	case "var":
		return !bound[t.Name]
	case "forall", "exists":
		nb := map[string]bool{}
		for k := range bound {
			nb[k] = true
		}
		for _, v := range t.Bound {
			nb[v.Name] = true
		}
		for _, a := range t.Args {
			if hasFreeVar(a, nb) {
				return true
			}
		}
		return false
	}
	for _, a := range t.Args {
		if hasFreeVar(a, bound) {
			return true
		}
	}
	return false
}

// namedSpecFun: a macro over scalar arguments whose body does not read the heap becomes an
// uninterpreted function with a (pattern-guarded) definitional axiom; uses are applications.
// Returns nil when the macro does not qualify.
func (env *SpecEnv) namedSpecFun(sf *SpecFun, vars map[string]*Value) *Value {
	x := env.x
	var args []*Term
	var sig []string
	for _, p := range sf.Params {
		v := vars[p]
		if v == nil || v.T == nil || isNilConst(v) {
			return nil
		}
		switch v.K {
		case KScalar, KStruct, KSlice, KIface:
		case KPtr:
			if v.P.Cell != nil || v.P.Elem || len(v.P.Path) > 0 {
				return nil
			}
		case KFunc:
			if v.Term == nil {
				return nil
			}
		default:
			return nil
		}
		ok := true
		func() {
			defer func() {
				if r := recover(); r != nil {
					ok = false
				}
			}()
			offs := sliceOffsetLeaves(v)
			for li, t := range leafTerms(v) {
				if offs[li] && t.Op == "int" {
					// a literal slice offset is part of the function's identity, not an argument
					// (keeps element indices in the definition free of arithmetic on a bound offset)
					sig = append(sig, "off="+t.String())
					continue
				}
				args = append(args, t)
				sig = append(sig, t.Sort.String())
			}
		}()
		if !ok {
			return nil
		}
		sig = append(sig, "|"+typeKey(v.T))
	}
	if len(args) == 0 {
		return nil
	}
	// which heap arrays does the state hold for the keys this macro may read? They are part of the
	// identity of the named function (the definition mentions them as fixed constants).
	// the identity of the named function includes the heap arrays its body reads (they occur as
	// fixed constants in the definition); which keys those are is learnt at the first evaluation
	baseKey := sf.Name + "(" + strings.Join(sig, ",") + ")"
	heapSig := ""
	if rk, known := x.namedReads[baseKey]; known {
		env.nameHeapTerms(rk)
		heapSig = env.heapSignatureOf(rk)
	} else {
		heapSig = "?"
	}
	key := baseKey + "@" + heapSig
	info, done := x.namedFuns[key]
	if heapSig == "?" {
		done = false
	}
	if !done {
		info = &namedFun{}
		x.namedFuns[key] = info
		bvars := map[string]*Value{}
		var bound []*Term
		n := 0
		for _, p := range sf.Params {
			v := vars[p]
			offs := sliceOffsetLeaves(v)
			actual := leafTerms(v)
			li := 0
			bv := buildValue(v.T, func(l Leaf) *Term {
				cur := li
				li++
				if offs[cur] && actual[cur].Op == "int" {
					return actual[cur]
				}
				t := BoundVar(fmt.Sprintf("a%d_%s", n, p), l.Sort)
				n++
				bound = append(bound, t)
				return t
			})
			if v.K == KFunc {
				bv.Fn = nil
			}
			bvars[p] = bv
		}
		saved := x.heapReads
		x.heapReads = []heapRead{}
		nf := len(x.facts)
		np := len(x.perm)
		ne := *env
		ne.vars = bvars
		ne.fr = nil
		ne.at = nil
		var body *Value
		ok := func() (ok bool) {
			defer func() {
				if r := recover(); r != nil {
					if _, isSpec := r.(specErr); isSpec {
						ok = false
						return
					}
					if _, isUns := r.(unsupported); isUns {
						ok = false
						return
					}
					panic(r)
				}
			}()
			body = ne.eval(sf.Body)
			return true
		}()
		reads := x.heapReads
		x.heapReads = saved
		if _, known := x.namedReads[baseKey]; !known {
			var rk []string
			seenK := map[string]bool{}
			for _, r := range reads {
				if !seenK[r.key] {
					seenK[r.key] = true
					rk = append(rk, r.key)
				}
			}
			sort.Strings(rk)
			x.namedReads[baseKey] = rk
			key = baseKey + "@" + env.heapSignatureOf(rk)
			x.namedFuns[key] = info
		}
		leaked := false
		for _, f := range x.facts[nf:] {
			if termHasBoundVar(f) {
				leaked = true
			}
		}
		for _, f := range x.perm[np:] {
			if termHasBoundVar(f) {
				leaked = true
			}
		}
		if leaked {
			// drop only the facts that mention the bound variables (closed ones, e.g. the
			// definitional axioms of inner named functions, stay)
			keepF := x.facts[:nf:nf]
			for _, f := range x.facts[nf:] {
				if !termHasBoundVar(f) {
					keepF = append(keepF, f)
				}
			}
			x.facts = keepF
			keepP := x.perm[:np:np]
			for _, f := range x.perm[np:] {
				if !termHasBoundVar(f) {
					keepP = append(keepP, f)
				}
			}
			x.perm = keepP
		}
		// heap arrays read must be plain constants (they appear free in the definition)
		for _, r := range reads {
			t := x.heapArr(r.st, r.key, x.heapSort[r.key])
			if t.Op != "const" {
				ok = false // (the caller re-evaluates after the heap terms have been named)
			}
		}
		if !ok || leaked || body == nil || body.K != KScalar || body.T == nil {
			info.bad = true
		} else {
			info.name = fmt.Sprintf("sf$%s$%x", sf.Name, hashString(key))
			if os.Getenv("GVC_DEBUG") != "" {
				fmt.Fprintf(os.Stderr, "DEBUG named %s key=%s\n", info.name, key)
			}
			info.res = body.Term.Sort
			info.resT = body.T
			app := x.ctx.App(info.name, info.res, bound...)
			x.perm = append(x.perm, Forall(bound, Eq(app, body.Term), []*Term{app}))
		}
	}
	if info.bad {
		return nil
	}
	return scalar(info.resT, x.ctx.App(info.name, info.res, args...))
}

// heapSignatureOf identifies the current heap arrays for the given keys.
func (env *SpecEnv) heapSignatureOf(keys []string) string {
	if env.cur == nil {
		return ""
	}
	var parts []string
	for _, k := range keys {
		t, ok := env.cur.heap[k]
		if !ok {
			parts = append(parts, k+"=H0")
			continue
		}
		if t.Op == "const" {
			parts = append(parts, k+"="+t.Name)
		} else {
			parts = append(parts, k+"=#"+fmt.Sprintf("%x", hashString(t.String())))
		}
	}
	sort.Strings(parts)
	return strings.Join(parts, ";")
}

type namedFun struct {
	bad  bool
	name string
	res  *Sort
	resT types.Type
}

// autoPatterns chooses E-matching triggers for a quantifier: the minimal select / uninterpreted
// applications that mention the bound variables (z3's own inference tends to pick the enclosing
// predicate application, for which no ground instance exists).
func autoPatterns(bound []*Term, body *Term) [][]*Term {
	names := map[string]bool{}
	for _, b := range bound {
		names[b.Name] = true
	}
	varsOf := func(t *Term) map[string]bool {
		m := map[string]bool{}
		var w func(t *Term)
		w = func(t *Term) {
			if t.Op == "var" && names[t.Name] {
				m[t.Name] = true
			}
			for _, a := range t.Args {
				w(a)
			}
		}
		w(t)
		return m
	}
	type cand struct {
		t    *Term
		vars map[string]bool
	}
	var cands []cand
	seen := map[string]bool{}
	var walk func(t *Term) bool // returns true if a candidate was found inside t
	walk = func(t *Term) bool {
		if t.Op == "forall" || t.Op == "exists" {
			return false
		}
		found := false
		for _, a := range t.Args {
			if walk(a) {
				found = true
			}
		}
		if t.Op == "select" || t.Op == "app" {
			vs := varsOf(t)
			if len(vs) > 0 {
				// minimal: no candidate below covers the same variables
				covered := false
				for _, c := range cands {
					if isSubterm(c.t, t) && len(c.vars) == len(vs) {
						covered = true
					}
				}
				if !covered && !seen[t.String()] {
					seen[t.String()] = true
					cands = append(cands, cand{t, vs})
				}
				return true
			}
		}
		return found
	}
	walk(body)
	var full [][]*Term
	for _, c := range cands {
		if len(c.vars) == len(bound) {
			full = append(full, []*Term{c.t})
		}
	}
	if len(full) > 0 {
		if len(full) > 4 {
			full = full[:4]
		}
		return full
	}
	// combine partial candidates into one multi-pattern
	covered := map[string]bool{}
	var multi []*Term
	for _, c := range cands {
		adds := false
		for v := range c.vars {
			if !covered[v] {
				adds = true
			}
		}
		if adds {
			multi = append(multi, c.t)
			for v := range c.vars {
				covered[v] = true
			}
		}
	}
	if len(covered) == len(bound) && len(multi) > 0 {
		return [][]*Term{multi}
	}
	return nil
}

func isSubterm(sub, t *Term) bool {
	if sub == t || sub.String() == t.String() {
		return true
	}
	for _, a := range t.Args {
		if isSubterm(sub, a) {
			return true
		}
	}
	return false
}

func termsHaveBoundVar(ts []*Term) bool {
	for _, t := range ts {
		if termHasBoundVar(t) {
			return true
		}
	}
	return false
}

// nameHeapTerms binds the current heap arrays of the given keys to constants (definitions), so that
// named spec functions can mention them.
func (env *SpecEnv) nameHeapTerms(keys []string) {
	if env.cur == nil {
		return
	}
	x := env.x
	for _, k := range keys {
		t, ok := env.cur.heap[k]
		if !ok || t.Op == "const" {
			continue
		}
		c := x.ctx.Fresh("hn_"+shortKey(k), t.Sort)
		x.facts = append(x.facts, Eq(c, t))
		env.cur.heap[k] = c
	}
}

// sliceOffsetLeaves marks, in leaf order, the leaves of v that are slice offsets.
func sliceOffsetLeaves(v *Value) []bool {
	var out []bool
	for _, l := range leavesOf(v.T) {
		out = append(out, strings.HasSuffix(l.Path, "#off"))
	}
	return out
}

// zeroOffsetsStructural: slices produced by abstract accessors start at offset 0 of their backing
// array (same stated assumption as for input slices); purely structural, no fact is recorded.
func (x *Exec) zeroOffsetsStructural(v *Value) {
	switch v.K {
	case KSlice:
		if v.Off == nil || v.Off.Op != "int" {
			v.Off = IntLit(0)
			x.trusted[offsetAssumption] = true
		}
	case KStruct, KTuple:
		for _, f := range v.Fields {
			x.zeroOffsetsStructural(f)
		}
	}
}

// addrOfLocal: the address of a heap-allocated local variable of the function under verification
// (nil when there is none with that name, or it is not a struct).
func (env *SpecEnv) addrOfLocal(name string) *Value {
	for _, b := range env.fr.fn.Blocks {
		for _, in := range b.Instrs {
			if a, ok := in.(*ssa.Alloc); ok && a.Comment == name && a.Heap {
				if _, isStruct := under(a.Type().(*types.Pointer).Elem()).(*types.Struct); !isStruct {
					return nil
				}
				if v, ok := env.fr.regs[a]; ok {
					return v
				}
			}
		}
	}
	return nil
}

// noteIdentKind records what kind of Go variable a contract identifier resolved to in the function under contract
// (part of the fit fingerprint, check.go).
func (x *Exec) noteIdentKind(fr *Frame, name, kind string) {
	if fr == nil || fr.fn != x.root {
		return
	}
	if x.fitIdents == nil {
		x.fitIdents = map[string]map[string]bool{}
	}
	if x.fitIdents[name] == nil {
		x.fitIdents[name] = map[string]bool{}
	}
	x.fitIdents[name][kind] = true
}
