package main

// Counterexample replay: when a solver answers `sat` on a safety obligation (the operation can
// panic), the model's values for the function's parameters are read back with (get-value),
// turned into Go literals and the REAL function is called with them in an in-package test injected
// with `go test -overlay` (nothing is written to the repository). The violation counts as
// reproduced when the call panics. Parameter types within reach: integers, booleans, strings
// (and named versions of these), []byte; contents up to replayMaxLen bytes.

import (
	"encoding/json"
	"fmt"
	"go/types"
	"os"
	"os/exec"
	"path/filepath"
	"strconv"
	"strings"
	"time"

	"golang.org/x/tools/go/ssa"
)

const replayMaxLen = 48

type replayParam struct {
	name  string
	t     types.Type
	kind  string // int, bool, string, bytes
	terms []*Term
}

func replayKind(t types.Type) string {
	switch u := under(t).(type) {
	case *types.Basic:
		switch {
		case u.Info()&types.IsInteger != 0:
			return "int"
		case u.Info()&types.IsBoolean != 0:
			return "bool"
		case u.Info()&types.IsString != 0:
			return "string"
		}
	case *types.Slice:
		if b, ok := under(u.Elem()).(*types.Basic); ok && b.Kind() == types.Uint8 {
			return "bytes"
		}
	}
	return ""
}

// replayPlan lists the model terms needed to rebuild the arguments (nil: not replayable).
func (x *Exec) replayPlan(fn *ssa.Function, params []*Value) []replayParam {
	if fn.Signature.Recv() != nil || len(fn.FreeVars) > 0 || fn.Parent() != nil || fn.TypeParams().Len() > 0 || len(fn.TypeArgs()) > 0 {
		return nil
	}
	var out []replayParam
	for i, p := range fn.Params {
		if i >= len(params) {
			return nil
		}
		v := params[i]
		rp := replayParam{name: p.Name(), t: p.Type(), kind: replayKind(p.Type())}
		switch rp.kind {
		case "int", "bool":
			rp.terms = []*Term{v.Term}
		case "string":
			rp.terms = []*Term{x.slen(v.Term)}
			for k := 0; k < replayMaxLen; k++ {
				rp.terms = append(rp.terms, x.sat(v.Term, IntLit(int64(k))))
			}
		case "bytes":
			et := under(p.Type()).(*types.Slice).Elem()
			ptr := &Pointer{Base: v.Ref, ObjT: et, Elem: true, Idx: IntLit(0)}
			key, stored, _ := x.leafKey(ptr, leavesOf(et)[0])
			h0 := x.ctx.Const("H0_"+key, stored)
			if _, ok := x.heapSort[key]; !ok {
				// never read: contents irrelevant
				h0 = nil
			}
			rp.terms = []*Term{v.Len, Eq(v.Ref, x.null())}
			for k := 0; k < replayMaxLen; k++ {
				if h0 == nil {
					rp.terms = append(rp.terms, IntLit(0))
				} else {
					rp.terms = append(rp.terms, Select(Select(h0, v.Ref), Add(v.Off, IntLit(int64(k)))))
				}
			}
		default:
			return nil
		}
		out = append(out, rp)
	}
	return out
}

func smtInt(s string) (int64, bool) {
	s = strings.TrimSpace(s)
	neg := false
	if strings.HasPrefix(s, "(-") {
		neg = true
		s = strings.TrimSpace(strings.TrimSuffix(strings.TrimPrefix(s, "(-"), ")"))
	}
	n, err := strconv.ParseInt(s, 10, 64)
	if err != nil {
		return 0, false
	}
	if neg {
		n = -n
	}
	return n, true
}

// parseValueList parses the solver's "((t1 v1) (t2 v2) ...)" answer into the list of values, in order.
func parseValueList(out string) []string {
	i := strings.Index(out, "\n")
	if i < 0 {
		return nil
	}
	s := strings.TrimSpace(out[i+1:])
	var vals []string
	depth := 0
	start := -1
	for j := 0; j < len(s); j++ {
		switch s[j] {
		case '(':
			depth++
			if depth == 2 {
				start = j
			}
		case ')':
			if depth == 2 && start >= 0 {
				pair := s[start+1 : j]
				// value is the last s-expression of the pair
				v := lastSexp(pair)
				vals = append(vals, v)
				start = -1
			}
			depth--
		}
	}
	return vals
}

func lastSexp(p string) string {
	p = strings.TrimSpace(p)
	if strings.HasSuffix(p, ")") {
		d := 0
		for k := len(p) - 1; k >= 0; k-- {
			if p[k] == ')' {
				d++
			} else if p[k] == '(' {
				d--
				if d == 0 {
					return p[k:]
				}
			}
		}
	}
	if k := strings.LastIndexAny(p, " \t\n"); k >= 0 {
		return p[k+1:]
	}
	return p
}

func goBytesLit(bs []byte) string {
	var sb strings.Builder
	sb.WriteString("[]byte{")
	for i, b := range bs {
		if i > 0 {
			sb.WriteString(", ")
		}
		fmt.Fprintf(&sb, "0x%02x", b)
	}
	sb.WriteString("}")
	return sb.String()
}

// replay tries to reproduce a counterexample on the real code. Returns the replay file.
func (cc *checkCtx) replay(x *Exec, r *OblResult) (string, bool) {
	info := map[string]interface{}{}
	reproduced := false
	func() {
		defer func() {
			if rec := recover(); rec != nil {
				info["replay_error"] = fmt.Sprint(rec)
			}
		}()
		if x.rootFrame == nil || !safetyKinds[r.O.Kind] || r.O.Kind == "call.pre" {
			info["replay"] = "not attempted: only no-panic obligations of the verified function itself are replayed"
			return
		}
		fn := x.rootFrame.fn
		plan := x.replayPlan(fn, x.rootFrame.params)
		if plan == nil {
			info["replay"] = "not attempted: parameter types outside the replayable set (integers, booleans, strings, []byte; no receiver)"
			return
		}
		var gv []*Term
		for _, p := range plan {
			gv = append(gv, p.terms...)
		}
		// ask for a small counterexample
		var small []*Term
		for _, p := range plan {
			if p.kind == "string" || p.kind == "bytes" {
				small = append(small, Le(p.terms[0], IntLit(replayMaxLen)))
			}
		}
		script := x.buildScript(r.O, small, gv)
		ans := runSolvers(script, cc.workDir, r.O.Name+"#model", cc.timeoutS, []string{"z3-new", "z3"})
		if ans.Status != "sat" {
			info["replay"] = "model query did not come back sat (" + ans.Status + ")"
			return
		}
		vals := parseValueList(ans.Output)
		if len(vals) != len(gv) {
			info["replay"] = fmt.Sprintf("could not read the model back (%d values for %d terms)", len(vals), len(gv))
			return
		}
		var args []string
		desc := map[string]string{}
		k := 0
		for _, p := range plan {
			vs := vals[k : k+len(p.terms)]
			k += len(p.terms)
			ts := types.TypeString(p.t, func(pk *types.Package) string {
				if pk == fn.Pkg.Pkg {
					return ""
				}
				return pk.Name()
			})
			switch p.kind {
			case "int":
				n, ok := smtInt(vs[0])
				if !ok {
					info["replay"] = "unreadable integer " + vs[0]
					return
				}
				args = append(args, fmt.Sprintf("%s(%d)", ts, n))
				desc[p.name] = fmt.Sprint(n)
			case "bool":
				args = append(args, fmt.Sprintf("%s(%s)", ts, vs[0]))
				desc[p.name] = vs[0]
			case "string", "bytes":
				off := 1
				if p.kind == "bytes" {
					off = 2
				}
				n, ok := smtInt(vs[0])
				if !ok || n < 0 || n > replayMaxLen {
					info["replay"] = fmt.Sprintf("model length of %s is %s (replay limit %d)", p.name, vs[0], replayMaxLen)
					return
				}
				bs := make([]byte, n)
				for i := int64(0); i < n; i++ {
					b, ok := smtInt(vs[off+int(i)])
					if !ok {
						b = 0
					}
					bs[i] = byte(b)
				}
				if p.kind == "bytes" && strings.TrimSpace(vs[1]) == "true" && n == 0 {
					args = append(args, fmt.Sprintf("%s(nil)", ts))
				} else if p.kind == "bytes" {
					args = append(args, fmt.Sprintf("%s(%s)", ts, goBytesLit(bs)))
				} else {
					args = append(args, fmt.Sprintf("%s(%s)", ts, strconv.Quote(string(bs))))
				}
				desc[p.name] = strconv.Quote(string(bs))
			}
		}
		info["inputs"] = desc
		test := fmt.Sprintf(`package %s

import "testing"

func TestGvcReplay(t *testing.T) {
	defer func() {
		if r := recover(); r != nil {
			t.Fatalf("GVC-REPLAY-PANIC: %%v", r)
		}
	}()
	%s(%s)
	t.Log("GVC-REPLAY-RETURNED")
}
`, fn.Pkg.Pkg.Name(), fn.Name(), strings.Join(args, ", "))
		info["go_test"] = test
		out, panicked := cc.runReplayTest(fn, test)
		info["go_test_output"] = trunc(out, 3000)
		reproduced = panicked
	}()
	why := "solver found a counterexample"
	if reproduced {
		why = "solver found a counterexample; calling the real function with it panics"
	}
	path := cc.writeReplayExtra(r.O.Name, why, r.Ans, r.O, info)
	return path, reproduced
}

// runReplayTest runs the generated test inside the package of fn through an overlay.
func (cc *checkCtx) runReplayTest(fn *ssa.Function, src string) (string, bool) {
	dir, err := os.MkdirTemp("", "gvc-replay-")
	if err != nil {
		return err.Error(), false
	}
	defer os.RemoveAll(dir)
	pos := cc.w.prog.Fset.Position(fn.Pos())
	pkgDir := filepath.Dir(pos.Filename)
	testFile := filepath.Join(dir, "zz_gvc_replay_test.go")
	os.WriteFile(testFile, []byte(src), 0o644)
	ov := map[string]map[string]string{"Replace": {filepath.Join(pkgDir, "zz_gvc_replay_test.go"): testFile}}
	data, _ := json.Marshal(ov)
	ovFile := filepath.Join(dir, "overlay.json")
	os.WriteFile(ovFile, data, 0o644)
	cmd := exec.Command("go", "test", "-overlay", ovFile, "-vet=off", "-count=1", "-timeout", "60s", "-run", "^TestGvcReplay$", ".")
	cmd.Dir = pkgDir
	cmd.Env = append(os.Environ(), "GOFLAGS=-mod=readonly", "GOPROXY=off", "GOSUMDB=off", "GOTOOLCHAIN=local")
	done := make(chan struct{})
	var out []byte
	go func() {
		out, _ = cmd.CombinedOutput()
		close(done)
	}()
	select {
	case <-done:
	case <-time.After(150 * time.Second):
		if cmd.Process != nil {
			cmd.Process.Kill()
		}
		return "replay timed out", false
	}
	s := string(out)
	return s, strings.Contains(s, "GVC-REPLAY-PANIC")
}

func (cc *checkCtx) writeReplayExtra(obl, why string, ans *SolverAnswer, o *Obligation, extra map[string]interface{}) string {
	path := cc.writeReplay(obl, why, ans, o)
	data, err := os.ReadFile(path)
	if err != nil {
		return path
	}
	var m map[string]interface{}
	if json.Unmarshal(data, &m) != nil {
		return path
	}
	for k, v := range extra {
		m[k] = v
	}
	data, _ = json.MarshalIndent(m, "", " ")
	os.WriteFile(path, data, 0o644)
	return path
}
