package main

import (
	"fmt"
	"go/token"
	"go/types"
	"strings"

	"golang.org/x/tools/go/ssa"
)

func (x *Exec) builtin(fr *Frame, st *State, b *ssa.Builtin, sargs []ssa.Value, args []*Value, resT types.Type, pos token.Pos) *Value {
	switch b.Name() {
	case "len":
		v := args[0]
		switch {
		case v.K == KSlice:
			return scalar(resT, v.Len)
		case v.K == KScalar && v.Term.Sort.Kind == SStr:
			return scalar(resT, x.slen(v.Term))
		case v.K == KArray:
			return scalar(resT, IntLit(under(v.T).(*types.Array).Len()))
		case v.K == KPtr:
			return scalar(resT, IntLit(under(sargs[0].Type().(*types.Pointer).Elem()).(*types.Array).Len()))
		}
		if _, ok := under(sargs[0].Type()).(*types.Map); ok {
			n := x.mapLen(st, sargs[0].Type(), v.Term)
			x.assume(st, Ge(n, IntLit(0)))
			// an empty map holds no key
			mi := x.mapInfoOf(sargs[0].Type())
			bv := make([]*Term, len(mi.kLeaves))
			for i, l := range mi.kLeaves {
				bv[i] = BoundVar(fmt.Sprintf("k%d", i), l.Sort)
			}
			present := x.mapPresent(st, sargs[0].Type(), v.Term)
			x.assume(st, Implies(And(Neq(v.Term, x.null()), Eq(n, IntLit(0))), Forall(bv, Not(selectN(present, bv)), []*Term{selectN(present, bv)})))
			return scalar(resT, Ite(Eq(v.Term, x.null()), IntLit(0), n))
		}
		failf("len of %s", sargs[0].Type())
	case "cap":
		v := args[0]
		if v.K == KSlice {
			return scalar(resT, x.capOf(st, v))
		}
		failf("cap of %s", sargs[0].Type())
	case "append":
		return x.appendModel(fr, st, sargs, args, resT)
	case "copy":
		return x.copyModel(fr, st, sargs, args, resT)
	case "close":
		x.chanClose(fr, st, args[0].Term, pos)
		return nil
	case "delete":
		x.mapDelete(st, sargs[0].Type(), args[0].Term, x.coerce(args[1], under(sargs[0].Type()).(*types.Map).Key()))
		return nil
	case "min", "max":
		acc := args[0].Term
		for _, a := range args[1:] {
			if b.Name() == "min" {
				acc = Ite(Le(acc, a.Term), acc, a.Term)
			} else {
				acc = Ite(Ge(acc, a.Term), acc, a.Term)
			}
		}
		return scalar(resT, acc)
	case "print", "println":
		return nil
	case "recover":
		return x.zeroValue(resT)
	case "ssa:wrapnilchk":
		return args[0]
	}
	failf("unsupported builtin %s", b.Name())
	return nil
}

// appendModel: the result has a fresh backing array (no capacity aliasing — stated assumption)
// whose first len(s) elements are those of s followed by the appended elements.
func (x *Exec) appendModel(fr *Frame, st *State, sargs []ssa.Value, args []*Value, resT types.Type) *Value {
	x.trusted["append always yields a fresh backing array (no capacity aliasing between the argument and the result)"] = true
	s := args[0]
	s = x.coerce(s, resT)
	et := under(resT).(*types.Slice).Elem()
	ref := x.freshRef(st, "app")
	var tl *Term
	t := args[1]
	tIsStr := t.K == KScalar && t.Term.Sort.Kind == SStr
	if tIsStr {
		tl = x.slen(t.Term)
	} else {
		t = x.coerce(t, resT)
		tl = t.Len
	}
	newLen := Add(s.Len, tl)
	for _, l := range leavesOf(et) {
		pS := &Pointer{Base: s.Ref, ObjT: et, Elem: true, Idx: IntLit(0)}
		key, stored, _ := x.leafKey(pS, l)
		heap := x.heapArr(st, key, stored)
		src := Select(heap, s.Ref)
		var na *Term
		single := tl.Op == "int" && tl.Int.IsInt64() && tl.Int.Int64() <= 4 && !tIsStr
		if single && s.Off.Op == "int" && s.Off.Int.Sign() == 0 {
			// result = old contents with the new elements stored after them
			na = src
			for j := int64(0); j < tl.Int.Int64(); j++ {
				ev := Select(Select(heap, t.Ref), Add(t.Off, IntLit(j)))
				na = Store(na, Add(s.Len, IntLit(j)), ev)
			}
		} else {
			na = x.ctx.Fresh("appended", stored.Val)
			i := BoundVar("i", IntSort)
			x.facts = append(x.facts, Forall([]*Term{i}, Implies(And(Le(IntLit(0), i), Lt(i, s.Len)),
				Eq(Select(na, i), Select(src, Add(s.Off, i)))), []*Term{Select(na, i)}))
			if tIsStr {
				j := BoundVar("j", IntSort)
				x.facts = append(x.facts, Forall([]*Term{j}, Implies(And(Le(IntLit(0), j), Lt(j, tl)),
					Eq(Select(na, Add(s.Len, j)), x.sat(t.Term, j))), []*Term{Select(na, Add(s.Len, j))}))
			} else if single {
				for j := int64(0); j < tl.Int.Int64(); j++ {
					ev := Select(Select(heap, t.Ref), Add(t.Off, IntLit(j)))
					x.facts = append(x.facts, Eq(Select(na, Add(s.Len, IntLit(j))), ev))
				}
			} else {
				// indexed by the position in the result (the trigger is then a plain select; a trigger over
				// len+j only matches terms that are syntactically sums)
				j := BoundVar("j", IntSort)
				tsrc := Select(heap, t.Ref)
				x.facts = append(x.facts, Forall([]*Term{j}, Implies(And(Le(s.Len, j), Lt(j, newLen)),
					Eq(Select(na, j), Select(tsrc, Add(t.Off, Sub(j, s.Len))))), []*Term{Select(na, j)}))
				// and indexed by the position in the appended slice (matches contract terms written as len + j)
				j2 := BoundVar("j", IntSort)
				x.facts = append(x.facts, Forall([]*Term{j2}, Implies(And(Le(IntLit(0), j2), Lt(j2, tl)),
					Eq(Select(na, Add(s.Len, j2)), Select(tsrc, Add(t.Off, j2)))), []*Term{Select(na, Add(s.Len, j2))}))
			}
		}
		st.heap[key] = Store(heap, ref, na)
		x.noteWrite(key, ref)
	}
	return &Value{K: KSlice, T: resT, Ref: ref, Off: IntLit(0), Len: newLen}
}

func (x *Exec) copyModel(fr *Frame, st *State, sargs []ssa.Value, args []*Value, resT types.Type) *Value {
	dst, src := args[0], args[1]
	et := under(sargs[0].Type()).(*types.Slice).Elem()
	var sl *Term
	srcStr := src.K == KScalar && src.Term.Sort.Kind == SStr
	if srcStr {
		sl = x.slen(src.Term)
	} else {
		sl = src.Len
	}
	n := x.name("copyn", Ite(Le(dst.Len, sl), dst.Len, sl))
	for _, l := range leavesOf(et) {
		p := &Pointer{Base: dst.Ref, ObjT: et, Elem: true, Idx: IntLit(0)}
		key, stored, _ := x.leafKey(p, l)
		heap := x.heapArr(st, key, stored)
		old := Select(heap, dst.Ref)
		na := x.ctx.Fresh("copied", stored.Val)
		i := BoundVar("i", IntSort)
		var from *Term
		if srcStr {
			from = x.sat(src.Term, Sub(i, dst.Off))
		} else {
			from = Select(Select(heap, src.Ref), Add(src.Off, Sub(i, dst.Off)))
		}
		x.facts = append(x.facts, Forall([]*Term{i}, Eq(Select(na, i),
			Ite(And(Le(dst.Off, i), Lt(i, Add(dst.Off, n))), from, Select(old, i))), []*Term{Select(na, i)}))
		st.heap[key] = Store(heap, dst.Ref, na)
		x.noteWrite(key, dst.Ref)
	}
	return scalar(resT, n)
}

// modelCall: Go-side models of a few library functions (everything else is an extern contract).
func (x *Exec) modelCall(fr *Frame, st *State, fn *ssa.Function, name string, args []*Value, resT types.Type, pos token.Pos) (*Value, bool) {
	switch name {
	case "github.com/matrix-org/util.GetLogger", "github.com/sirupsen/logrus.WithField", "github.com/sirupsen/logrus.WithError",
		"github.com/sirupsen/logrus.WithFields", "github.com/sirupsen/logrus.WithContext":
		return x.freshResultNonNil(st, resT, "log"), true
	case "encoding/json.Unmarshal":
		return x.jsonUnmarshal(fr, st, args, resT, pos), true
	case "fmt.Sprintf":
		// formats made of literal text and %s applied to string arguments: plain concatenation
		if r := x.sprintfStrings(st, args); r != nil {
			return scalar(resT, r), true
		}
	case "strings.IndexByte":
		return scalar(resT, x.indexByte(args[0].Term, args[1].Term)), true
	case "strings.LastIndexByte":
		return scalar(resT, x.lastIndexByte(args[0].Term, args[1].Term)), true
	case "strings.Index", "strings.LastIndex", "strings.Contains":
		if c, ok := x.singleByteLit(args[1].Term); ok {
			switch name {
			case "strings.Index":
				return scalar(resT, x.indexByte(args[0].Term, c)), true
			case "strings.LastIndex":
				return scalar(resT, x.lastIndexByte(args[0].Term, c)), true
			default:
				return scalar(resT, Ge(x.indexByte(args[0].Term, c), IntLit(0))), true
			}
		}
	case "strings.ContainsRune":
		if args[1].Term.Op == "int" && args[1].Term.Int.IsInt64() && args[1].Term.Int.Int64() < 128 {
			return scalar(resT, Ge(x.indexByte(args[0].Term, args[1].Term), IntLit(0))), true
		}
	case "strings.Cut":
		if c, ok := x.singleByteLit(args[1].Term); ok {
			s := args[0].Term
			idx := x.indexByte(s, c)
			found := Ge(idx, IntLit(0))
			before := Ite(found, x.substr(s, IntLit(0), idx), s)
			after := Ite(found, x.substr(s, Add(idx, IntLit(1)), x.slen(s)), x.strLit(""))
			tt := resT.(*types.Tuple)
			return &Value{K: KTuple, T: resT, Fields: []*Value{scalar(tt.At(0).Type(), before), scalar(tt.At(1).Type(), after), scalar(tt.At(2).Type(), found)}}, true
		}
	case "strings.SplitN":
		// SplitN(s, sep, 2) with a one-byte literal separator
		if c, ok := x.singleByteLit(args[1].Term); ok && args[2].Term.Op == "int" && args[2].Term.Int.Int64() == 2 {
			s := args[0].Term
			idx := x.indexByte(s, c)
			found := Ge(idx, IntLit(0))
			ref := x.freshRef(st, "split")
			key := "E:string/"
			srt := ArraySort(RefSort, ArraySort(IntSort, StrSort))
			arr := x.heapArr(st, key, srt)
			p0 := Ite(found, x.substr(s, IntLit(0), idx), s)
			p1 := x.substr(s, Add(idx, IntLit(1)), x.slen(s))
			row := Store(Store(x.zeroOfSort(ArraySort(IntSort, StrSort)), IntLit(0), p0), IntLit(1), p1)
			st.heap[key] = Store(arr, ref, row)
			x.noteWrite(key, ref)
			return &Value{K: KSlice, T: resT, Ref: ref, Off: IntLit(0), Len: Ite(found, IntLit(2), IntLit(1))}, true
		}
	case "strings.HasPrefix":
		return scalar(resT, x.hasPrefixTerm(args[0].Term, args[1].Term)), true
	case "strings.HasSuffix":
		return scalar(resT, x.hasSuffixTerm(args[0].Term, args[1].Term)), true
	case "fmt.Printf", "fmt.Println", "fmt.Print", "log.Printf", "log.Println":
		return x.freshResult(st, resT, "print"), true
	}
	if strings.HasPrefix(name, "(*github.com/sirupsen/logrus.Entry).") || strings.HasPrefix(name, "(*github.com/sirupsen/logrus.Logger).") ||
		strings.HasPrefix(name, "github.com/sirupsen/logrus.") {
		// logging is a no-op on the verified state
		return x.freshResultNonNil(st, resT, "log"), true
	}
	return nil, false
}

func (x *Exec) freshResultNonNil(st *State, t types.Type, prefix string) *Value {
	v := x.freshResult(st, t, prefix)
	if v != nil && v.K == KPtr {
		x.assume(st, Neq(v.P.Base, x.null()))
	}
	return v
}

// globalInit returns the value of a package-level variable that is never reassigned and whose
// initialiser is a constant expression (lookup tables such as HEX / ESCAPES); nil otherwise.
func (x *Exec) globalInit(fr *Frame, st *State, p *Pointer, t types.Type) *Value {
	if len(p.Path) != 0 {
		return nil
	}
	gi := x.globals[p.Global]
	if gi == nil {
		// also try the short form pkgname.Var
		short := p.Global
		if i := strings.LastIndex(short, "/"); i >= 0 {
			short = short[i+1:]
		}
		gi = x.globals[short]
	}
	if gi == nil {
		return nil
	}
	v := gi(st)
	if v != nil && v.T != nil && !types.Identical(under(v.T), under(t)) {
		v = scalar(t, v.Term)
	} else if v != nil {
		v = scalar(t, v.Term)
	}
	return v
}

var _ = fmt.Sprintf

// sprintfStrings models fmt.Sprintf(format, args...) when format is a literal whose only verbs
// are %s, the argument count is known and every argument is a boxed string.
func (x *Exec) sprintfStrings(st *State, args []*Value) *Term {
	if len(args) != 2 || args[1].K != KSlice {
		return nil
	}
	format, ok := x.litContent(args[0].Term)
	if !ok {
		return nil
	}
	if args[1].Len == nil || args[1].Len.Op != "int" || !args[1].Len.Int.IsInt64() {
		return nil
	}
	n := int(args[1].Len.Int.Int64())
	parts := strings.Split(format, "%s")
	if len(parts) != n+1 || strings.Contains(strings.Join(parts, ""), "%") {
		return nil
	}
	et := under(args[1].T).(*types.Slice).Elem()
	strTag := x.typeTag(tStr)
	var out *Term
	app := func(t *Term) {
		if out == nil {
			out = t
		} else {
			out = x.sconcat(out, t)
		}
	}
	for i := 0; i <= n; i++ {
		if parts[i] != "" || (i == 0 && n == 0) {
			app(x.strLit(parts[i]))
		}
		if i < n {
			el := x.load(st, &Pointer{Base: args[1].Ref, ObjT: et, Elem: true, Idx: Add(args[1].Off, IntLit(int64(i)))}, et)
			if el == nil || el.K != KIface {
				return nil
			}
			// only when the dynamic type is known to be string (checked syntactically)
			if el.Tag != strTag && el.Tag.String() != strTag.String() {
				return nil
			}
			app(x.unbox(el.IRef, tStr).Term)
		}
	}
	if out == nil {
		out = x.strLit("")
	}
	return out
}
