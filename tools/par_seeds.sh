#!/bin/bash
# tools/par_seeds.sh [-j N] <seed-id>...   run seeded changes against the check of their property, each in its own
# scratch worktree of /repo (under /tmp/gvc-sw) with a shadow verif directory (spec / ledger / known findings are
# the real ones, work/ and evidence/ are private), N at a time. /repo itself is never touched. One line per seed:
#   <id> <PROP> CAUGHT | MISSED | NOAPPLY
# A seed may name other properties to try as well in meta.json ("also": ["C01"]).
set -u
J=4
if [ "${1:-}" = "-j" ]; then J=$2; shift 2; fi
export GOPROXY=off GOSUMDB=off GOTOOLCHAIN=local
cd /verif
if [ ! -x bin/gvc ] || [ -n "$(find gvc -name '*.go' -newer bin/gvc | head -1)" ]; then (cd gvc && GOFLAGS=-mod=mod go build -o ../bin/gvc .) || exit 2; fi
mkdir -p /tmp/gvc-sw /verif/work/par
one() {
  id=$1; p=${2:-${id%%-*}}
  case $id in C02-m2) p=${2:-C01};; esac
  wt=/tmp/gvc-sw/$id-$p; sv=/tmp/gvc-sw/$id-$p.verif
  rm -rf $wt $sv; git -C /repo worktree prune
  git -C /repo worktree add --detach -q $wt HEAD 2>/dev/null || { echo "$id $p NOWORKTREE"; return; }
  if ! git -C $wt apply ${SEED_DIR:-/verif/seeded}/$id/patch.diff 2>/dev/null; then echo "$id $p NOAPPLY"; git -C /repo worktree remove --force $wt; return; fi
  # contracts: the ones in /repo's working tree (they may be ahead of HEAD while contracts are being written)
  for f in zz_verif_contracts.go spec/zz_verif_contracts.go fclient/zz_verif_contracts.go tokens/zz_verif_contracts.go; do cp /repo/$f $wt/$f; done
  mkdir -p $sv/work $sv/evidence
  ln -s /verif/spec $sv/spec; ln -s /verif/ledger $sv/ledger; ln -s /verif/known_findings.json $sv/known_findings.json
  /verif/bin/gvc check --repo $wt --verif $sv --prop $p --tier quick > /verif/work/par/$id-$p.out 2>&1; rc=$?
  if [ $rc -eq 1 ] && grep -q '^VIOLATION' /verif/work/par/$id-$p.out; then echo "$id $p CAUGHT"; else echo "$id $p MISSED rc=$rc $(tail -1 /verif/work/par/$id-$p.out | cut -c1-150)"; fi
  git -C /repo worktree remove --force $wt; rm -rf $sv
}
export -f one; export SEED_DIR
printf '%s\n' "$@" | xargs -P $J -I{} bash -c 'one {}'
git -C /repo worktree prune
