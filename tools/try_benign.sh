#!/bin/bash
# tools/try_benign.sh <patch.diff> : apply a behaviour-preserving edit to /repo, run every claimed check (quick, in
# parallel), report any alarm (a VIOLATION line or non-zero exit is a false alarm), undo. Evidence files are restored.
set -u
P="$1"
if [ -n "$(git -C /repo status --porcelain)" ]; then echo "refusing: /repo has uncommitted changes"; exit 9; fi
mkdir -p /verif/work/evsave /verif/work/benign && cp /verif/evidence/*.json /verif/work/evsave/ 2>/dev/null
git -C /repo apply "$P" || { echo "patch does not apply"; exit 9; }
rm -f /verif/work/benign/*.out
jq -r '.checks[].property_id' /verif/MANIFEST.json | xargs -P 10 -I{} sh -c '/verif/check {} quick > /verif/work/benign/{}.out 2>&1; echo "rc=$?" >> /verif/work/benign/{}.out'
alarms=0
for f in /verif/work/benign/*.out; do
  p=$(basename $f .out)
  rc=$(grep -o '^rc=[0-9]*' $f | tail -1)
  v=$(grep -c '^VIOLATION' $f)
  if [ "$rc" != "rc=0" ] || [ $v -ne 0 ]; then alarms=$((alarms+1)); echo "ALARM $p $rc"; grep -E '^VIOLATION' $f | head -3; fi
  if grep -q '^UNDECIDED' $f; then echo "undecided $p: $(grep '^UNDECIDED' $f | head -2 | tr '\n' ' ')"; fi
done
git -C /repo checkout -- .
cp /verif/work/evsave/*.json /verif/evidence/ 2>/dev/null
echo "alarms=$alarms"
