#!/usr/bin/env python3
"""Regenerates /verif/MANIFEST.json from tools/claims.json (keeps the manifest valid at all times)."""
import json, os, subprocess
V = '/verif'
props = [json.loads(l) for l in open(f'{V}/properties.jsonl')]
claims = json.load(open(f'{V}/tools/claims.json'))
hook_commits = subprocess.run(['git', '-C', '/repo', 'log', '--format=%h %s'], capture_output=True, text=True).stdout.splitlines()
hooks = [l.split()[0] for l in hook_commits if l.split(' ', 1)[1].startswith('verif:')]
checks = []
for p in props:
    c = claims.get(p['id'])
    if not c or not c.get('claimed'):
        continue
    checks.append({
        'property_id': p['id'],
        'quick_cmd': f"./check {p['id']} quick",
        'thorough_cmd': f"./check {p['id']} thorough",
        'evidence_file': f"/verif/evidence/{p['id']}.json",
        'replay_cmd_template': f"./check {p['id']} --replay {{path}}",
        'engine': 'gvc',
        'level_claimed': {'category': 'proof', 'text': c['level_text'], 'design_ref': c.get('design_ref', 'DESIGN.md §5 ' + p['id'])},
        'level_note': c['level_note'],
        'technique': c.get('technique', 'contract-based deductive verification: VCs generated from go/ssa of the real functions against //@ contracts, discharged by z3/cvc5'),
    })
na = []
for p in props:
    c = claims.get(p['id'])
    if c and c.get('claimed'):
        continue
    na.append({'property_id': p['id'], 'reason': (c or {}).get('reason', 'no contract-based check built yet for this property (see DESIGN.md §5 for the plan); nothing is claimed')})
m = {
    'version': 1,
    'setup_cmd': 'cd gvc && GOFLAGS=-mod=mod GOPROXY=off GOSUMDB=off GOTOOLCHAIN=local go build -o ../bin/gvc .',
    'hooks': {
        'guard': 'verif',
        'enable': 'contracts are comment-only files zz_verif_contracts.go behind //go:build verif; gvc loads /repo with -tags verif (go build -tags verif ./... also works and adds no code)',
        'baseline_off_cmd': 'cd /repo && GOFLAGS=-mod=mod GOPROXY=off GOSUMDB=off go test -vet=off -count=1 ./...',
        'source_commits': hooks,
        'add_only': True,
    },
    'engines': [{'name': 'gvc', 'path': '/verif/gvc', 'serves_properties': [c['property_id'] for c in checks],
                 'kind_free_text': 'verification-condition generator for Go written for this task: symbolic execution of go/ssa with path merging, loop invariants, modular contracts (//@ comments), Burstall heap model; SMT-LIB obligations raced on z3 4.8.12, z3 5.1.0 and cvc5 1.0'}],
    'checks': checks,
    'notes': 'All checks rebuild their view of /repo from the current working tree on every run (go/packages + go/ssa). See DESIGN.md.',
    'not_applicable': na,
}
json.dump(m, open(f'{V}/MANIFEST.json', 'w'), indent=1)
print(len(checks), 'checks;', len(na), 'not applicable')
