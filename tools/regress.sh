#!/bin/bash
# tools/regress.sh : run every claimed check (quick) on the current tree and print one line each
cd /verif
for p in $(jq -r '.checks[].property_id' MANIFEST.json); do
  bin/gvc check --prop $p --tier quick 2>&1 | tail -1 | cut -c1-140
done
