#!/bin/bash
# tools_try_seed.sh <patch.diff> <PROP> [tier]   apply a seeded change to /repo, run the check, undo
set -u
P="$1"; PROP="$2"; TIER="${3:-quick}"
git -C /repo apply "$P" || { echo "patch does not apply"; exit 9; }
/verif/check "$PROP" "$TIER"; rc=$?
git -C /repo checkout -- . 
echo "exit=$rc"
