#!/bin/bash
# tools/try_seed.sh <patch.diff> <PROP> [tier]   apply a seeded change to /repo, run the check, undo
set -u
P="$1"; PROP="$2"; TIER="${3:-quick}"
if [ -n "$(git -C /repo status --porcelain)" ]; then echo "refusing: /repo has uncommitted changes"; exit 9; fi
git -C /repo apply "$P" || { echo "patch does not apply"; exit 9; }
/verif/check "$PROP" "$TIER"; rc=$?
git -C /repo checkout -- . 
echo "exit=$rc"
