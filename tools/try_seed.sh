#!/bin/bash
# tools/try_seed.sh <patch.diff> <PROP> [tier]   apply a seeded change to /repo, run the check, undo
set -u
P="$1"; PROP="$2"; TIER="${3:-quick}"
if [ -n "$(git -C /repo status --porcelain)" ]; then echo "refusing: /repo has uncommitted changes"; exit 9; fi
cp /verif/evidence/$PROP.json /verif/work/evidence_$PROP.saved 2>/dev/null
git -C /repo apply "$P" || { echo "patch does not apply"; exit 9; }
/verif/check "$PROP" "$TIER"; rc=$?
git -C /repo checkout -- . 
cp /verif/work/evidence_$PROP.saved /verif/evidence/$PROP.json 2>/dev/null
echo "exit=$rc"
