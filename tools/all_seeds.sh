#!/bin/bash
# tools/all_seeds.sh : apply every seeded change in turn, run the check of its property, report caught / missed
cd /verif
for d in seeded/*/; do
  id=$(basename $d); p=${id%%-*}
  case $id in C02-m2) p=C01;; C18-m4) echo "$id C18 OBSOLETE (see meta.json)"; continue;; esac
  out=$(tools/try_seed.sh /verif/$d/patch.diff $p 2>&1 | tail -3)
  if echo "$out" | grep -q "exit=1"; then echo "$id $p CAUGHT"; else echo "$id $p MISSED: $(echo "$out" | tail -2 | tr '\n' ' ' | cut -c1-160)"; fi
done
