#!/bin/bash
# tools/confirm_seed.sh <seed dir with patch.diff demo_test.go meta.json> -> prints CONFIRMED / reason
# Confirms in a scratch worktree of /repo HEAD: builds, existing suite passes with the change,
# demo fails with the change and passes without it. Removes the worktree afterwards.
set -u
D="$1"
export GOFLAGS=-mod=mod GOPROXY=off GOSUMDB=off GOTOOLCHAIN=local
WT=$(mktemp -d /tmp/seedwt.XXXXXX); rmdir "$WT"
git -C /repo worktree add -q --detach "$WT" HEAD || { echo "NO worktree"; exit 2; }
cleanup() { git -C /repo worktree remove --force "$WT" >/dev/null 2>&1; rm -rf "$WT"; }
trap cleanup EXIT
cd "$WT"
DEMODIR=$(jq -r .demo_dir "$D/meta.json")
[ "$DEMODIR" = "null" ] && DEMODIR="."
# 1. demo passes on unchanged tree
cp "$D/demo_test.go" "$DEMODIR/zz_seeded_demo_test.go"
if ! go test -vet=off -count=1 -timeout 300s -run TestSeededDemo "./$DEMODIR/" >/tmp/seed_base.log 2>&1; then echo "FAIL demo does not pass on unchanged tree"; tail -5 /tmp/seed_base.log; exit 1; fi
rm "$DEMODIR/zz_seeded_demo_test.go"
# 2. apply
git apply "$D/patch.diff" || { echo "FAIL patch does not apply"; exit 1; }
go build ./... >/tmp/seed_build.log 2>&1 || { echo "FAIL does not build"; tail -5 /tmp/seed_build.log; exit 1; }
if ! go test -vet=off -count=1 -timeout 1200s ./... >/tmp/seed_suite.log 2>&1; then echo "FAIL existing suite fails with the change"; grep -E "^(--- FAIL|FAIL)" /tmp/seed_suite.log | head -5; exit 1; fi
# 3. demo fails with the change
cp "$D/demo_test.go" "$DEMODIR/zz_seeded_demo_test.go"
if go test -vet=off -count=1 -timeout 300s -run TestSeededDemo "./$DEMODIR/" >/tmp/seed_demo.log 2>&1; then echo "FAIL demo passes with the change"; exit 1; fi
echo "CONFIRMED"
