#!/bin/bash
# tools/par_benign.sh [-j N] "<benign-id> <PROP>"...   behaviour-preserving edits from /verif/benign against the check of
# one property each, in scratch worktrees (see par_seeds.sh). A line ending in CAUGHT is a FALSE ALARM.
SEED_DIR=/verif/benign exec /verif/tools/par_seeds.sh "$@"
