package gomatrixserverlib

import (
	"math"
	"testing"

	"github.com/matrix-org/gomatrixserverlib/spec"
)

func TestWitnessStrictValidityWrap(t *testing.T) {
	// key valid until 1970-01-01T00:00:01Z, signature claimed at 2^64-1 ms
	if StrictValiditySignatureCheck(spec.Timestamp(math.MaxUint64), spec.Timestamp(1000)) {
		t.Fatalf("accepted: at=2^64-1 ms is after valid_until=1000 ms")
	}
	if StrictValiditySignatureCheck(spec.Timestamp(1<<63), spec.Timestamp(1000)) {
		t.Fatalf("accepted: at=2^63 ms is after valid_until=1000 ms")
	}
}
