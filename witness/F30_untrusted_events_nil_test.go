package gomatrixserverlib

import (
	"strings"
	"testing"
)

// F30: a room_id longer than 255 bytes but not longer than 255 code points makes the parser return
// (nil, EventValidationError{Persistable: true}); EventJSONs.UntrustedEvents keeps "persistable"
// failures and so appends a nil PDU, which CheckStateResponse / LineariseStateResponse dereference.
func TestWitnessUntrustedEventsNil(t *testing.T) {
	room := "!" + strings.Repeat("é", 200) + ":a"
	js := `{"type":"m.room.member","state_key":"@u:a","room_id":"` + room + `","sender":"@u:a","content":{},"auth_events":[],"prev_events":[],"depth":1,"origin_server_ts":1,"hashes":{"sha256":"AAAA"}}`
	evs := EventJSONs{[]byte(js)}.UntrustedEvents(RoomVersionV10)
	t.Logf("%d events", len(evs))
	defer func() {
		if r := recover(); r != nil {
			t.Fatalf("PANIC: %v", r)
		}
	}()
	for _, e := range evs {
		_ = e.StateKey()
	}
}
