package gomatrixserverlib

import "testing"

// F31b: zero written as a non-integer literal (0.0, 0e0, -0.0) passed the enforced check because the
// '.'/'e' tests were guarded by Num != 0 (a guard meant to skip non-numbers).
func TestWitnessEnforcedCanonicalZeroFloats(t *testing.T) {
	for _, in := range []string{`{"a":0.0}`, `{"a":0e0}`, `{"a":-0.0}`, `{"a":"x.e"}`, `{"a":0}`} {
		out, err := EnforcedCanonicalJSON([]byte(in), RoomVersionV10)
		t.Logf("%s -> %s err=%v", in, out, err)
		isFloatZero := in == `{"a":0.0}` || in == `{"a":0e0}` || in == `{"a":-0.0}`
		if isFloatZero && err == nil {
			t.Errorf("non-integer literal in %s accepted by the enforced check", in)
		}
		if !isFloatZero && err != nil {
			t.Errorf("%s rejected: %v", in, err)
		}
	}
}
