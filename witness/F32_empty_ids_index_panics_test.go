package gomatrixserverlib

import (
	"testing"

	"github.com/matrix-org/gomatrixserverlib/spec"
)

// F32: two one-byte peeks without a length check. SenderID("").IsUserID() (and ToUserID / IsPseudoID)
// panics - a sender field is remote data; isValidUserID panics when the sender -> user map yields a
// user ID whose string form is empty (the zero spec.UserID), which crashes createEventAllowed.
func TestWitnessEmptySenderID(t *testing.T) {
	defer func() {
		if r := recover(); r != nil {
			t.Fatalf("PANIC: %v", r)
		}
	}()
	_ = spec.SenderID("").IsUserID()
}

func TestWitnessEmptyUserIDInCreateAuth(t *testing.T) {
	sk := ""
	create := &eventV2{eventV1: eventV1{roomVersion: RoomVersionV10, EventIDRaw: "$c", eventFields: eventFields{RoomID: "!r:a", SenderID: "@u:a", Type: "m.room.create", StateKey: &sk, Content: []byte(`{"creator":"@u:a","room_version":"10"}`)}}, AuthEvents: []string{}, PrevEvents: []string{}}
	p, _ := NewAuthEvents(nil)
	defer func() {
		if r := recover(); r != nil {
			t.Fatalf("PANIC: %v", r)
		}
	}()
	err := Allowed(create, p, func(roomID spec.RoomID, senderID spec.SenderID) (*spec.UserID, error) { return &spec.UserID{}, nil })
	t.Logf("err=%v", err)
}
