package gomatrixserverlib

import (
	"crypto/ed25519"
	"testing"
)

// F29: SignJSON panics ("assignment to entry in nil map") when the object already carries
// "signatures": {"<signingName>": null}: the decoded inner map is nil but present.
func TestWitnessSignJSONNullSignaturesEntry(t *testing.T) {
	defer func() {
		if r := recover(); r != nil {
			t.Fatalf("PANIC: %v", r)
		}
	}()
	_, priv, _ := ed25519.GenerateKey(nil)
	out, err := SignJSON("example.org", "ed25519:1", priv, []byte(`{"a":1,"signatures":{"example.org":null}}`))
	t.Logf("out=%s err=%v", out, err)
}
