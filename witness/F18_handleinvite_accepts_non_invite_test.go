package gomatrixserverlib

import (
	"context"
	"crypto/rand"
	"testing"
	"time"

	"github.com/matrix-org/gomatrixserverlib/spec"
	"golang.org/x/crypto/ed25519"
)

// F18: HandleInvite verifies the signature and the room of the event it is given but never that the
// event is an invite: a membership=join event (or any other event) is accepted and counter-signed
// with the local server's key. Uses the helpers of handleinvite_test.go.
func TestWitnessHandleInviteAcceptsNonInvite(t *testing.T) {
	userID, _ := spec.NewUserID("@user:server", true)
	validRoom, _ := spec.NewRoomID("!room:server")
	pk, sk, _ := ed25519.GenerateKey(rand.Reader)
	keyID := KeyID("ed25519:1234")
	verifier := &KeyRing{[]KeyFetcher{&TestRequestKeyDummy{}}, &joinKeyDatabase{key: pk}}
	stateKey := userID.String()
	for _, content := range []string{`{"membership":"join"}`, `{"membership":"ban"}`} {
		eb := createMemberEventBuilder(RoomVersionV10, userID.String(), validRoom.String(), &stateKey, spec.RawJSON(content))
		ev, err := eb.Build(time.Now(), userID.Domain(), keyID, sk)
		if err != nil {
			t.Fatal(err)
		}
		out, err := HandleInvite(context.Background(), HandleInviteInput{
			RoomID: *validRoom, RoomVersion: RoomVersionV10, InvitedUser: *userID, InviteEvent: ev,
			RoomQuerier: &TestRoomQuerier{}, MembershipQuerier: &TestMembershipQuerier{}, StateQuerier: &TestStateQuerier{},
			KeyID: keyID, PrivateKey: sk, Verifier: verifier, UserIDQuerier: UserIDForSenderTest,
		})
		if err == nil {
			m, _ := out.Membership()
			t.Errorf("HandleInvite accepted and counter-signed a membership=%s event", m)
		}
	}
}
