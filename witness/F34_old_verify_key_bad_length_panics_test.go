package gomatrixserverlib

import (
	"context"
	"encoding/base64"
	"encoding/json"
	"fmt"
	"testing"
	"time"

	"github.com/matrix-org/gomatrixserverlib/spec"
	"golang.org/x/crypto/ed25519"
)

type f34DB struct {
	res map[PublicKeyLookupRequest]PublicKeyLookupResult
}

func (d *f34DB) FetcherName() string { return "f34" }
func (d *f34DB) FetchKeys(ctx context.Context, requests map[PublicKeyLookupRequest]spec.Timestamp) (map[PublicKeyLookupRequest]PublicKeyLookupResult, error) {
	return d.res, nil
}
func (d *f34DB) StoreKeys(ctx context.Context, results map[PublicKeyLookupRequest]PublicKeyLookupResult) error {
	return nil
}

// F34: only verify_keys are length-checked by CheckKeys; an old_verify_keys entry of any length is accepted
// into the key map, and verifying a message signed under that key ID at a time before its expired_ts calls
// ed25519.Verify with a public key that is not 32 bytes, which panics ("ed25519: bad public key length").
// A remote server controls both the key response and the event. (in package gomatrixserverlib)
func TestWitnessOldVerifyKeyBadLength(t *testing.T) {
	pub, priv, _ := ed25519.GenerateKey(nil)
	now := time.Now()
	resp := fmt.Sprintf(`{"server_name":"evil.example","valid_until_ts":%d,"verify_keys":{"ed25519:a":{"key":"%s"}},"old_verify_keys":{"ed25519:old":{"key":"AQ","expired_ts":%d}}}`,
		now.Add(time.Hour).UnixMilli(), base64.RawStdEncoding.EncodeToString(pub), now.Add(time.Hour).UnixMilli())
	signed, err := SignJSON("evil.example", "ed25519:a", priv, []byte(resp))
	if err != nil {
		t.Fatal(err)
	}
	var keys ServerKeys
	if err = json.Unmarshal(signed, &keys); err != nil {
		t.Fatal(err)
	}
	checks, _ := CheckKeys("evil.example", now, keys)
	if !checks.AllChecksOK {
		t.Skipf("key response refused: %+v", checks)
	}
	results := map[PublicKeyLookupRequest]PublicKeyLookupResult{}
	mapServerKeysToPublicKeyLookupResult(keys, results)

	msg := []byte(`{"a":1,"signatures":{"evil.example":{"ed25519:old":"` + base64.RawStdEncoding.EncodeToString(make([]byte, 64)) + `"}}}`)
	ring := KeyRing{KeyDatabase: &f34DB{res: results}}
	defer func() {
		if r := recover(); r != nil {
			t.Fatalf("PANIC: %v", r)
		}
	}()
	res, err := ring.VerifyJSONs(context.Background(), []VerifyJSONRequest{{
		ServerName: "evil.example", AtTS: spec.AsTimestamp(now), Message: msg, ValidityCheckingFunc: StrictValiditySignatureCheck,
	}})
	if err != nil {
		t.Fatal(err)
	}
	if res[0].Error == nil {
		t.Fatal("accepted")
	}
}
