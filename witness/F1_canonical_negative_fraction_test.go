package gomatrixserverlib

import "testing"

// F1: CompactJSON drops the minus sign of every number whose integer part is 0 (it means to
// rewrite -0 as 0): -0.5 becomes 0.5, -0e1 becomes 0e1 - canonicalisation changes the value.
func TestWitnessCanonicalNegativeFraction(t *testing.T) {
	for in, want := range map[string]string{`{"a":-0.5}`: `{"a":-0.5}`, `{"a":-0}`: `{"a":0}`, `[-0.25,-0]`: `[-0.25,0]`} {
		out, err := CanonicalJSON([]byte(in))
		t.Logf("%s -> %s err=%v", in, out, err)
		if err != nil || string(out) != want {
			t.Errorf("CanonicalJSON(%s) = %s, want %s", in, out, want)
		}
	}
}
