package gomatrixserverlib

import (
	"crypto/sha256"
	"encoding/base64"
	"testing"
)

// F13: room versions 3-5 accept numbers outside float64 range in content; the event parses
// (content is kept raw) but EventID() panics because redaction decodes content into
// map[string]interface{}.
func TestWitnessEventIDPanicHugeNumber(t *testing.T) {
	body := `{"auth_events":[],"content":{"x":1e999},"depth":1,"origin_server_ts":1,"prev_events":[],"room_id":"!r:a","sender":"@u:a","type":"m.room.message"}`
	sum := sha256.Sum256([]byte(body))
	h := base64.RawStdEncoding.EncodeToString(sum[:])
	full := `{"auth_events":[],"content":{"x":1e999},"depth":1,"hashes":{"sha256":"` + h + `"},"origin_server_ts":1,"prev_events":[],"room_id":"!r:a","sender":"@u:a","type":"m.room.message"}`
	ev, err := MustGetRoomVersion(RoomVersionV4).NewEventFromUntrustedJSON([]byte(full))
	if err != nil {
		t.Skipf("rejected at parse: %v", err)
	}
	t.Logf("parsed, redacted=%v", ev.Redacted())
	defer func() {
		if r := recover(); r != nil {
			t.Fatalf("PANIC in EventID(): %v", r)
		}
	}()
	_ = ev.EventID()
}
