package gomatrixserverlib

import (
	"encoding/json"
	"testing"
)

// F1b: sortJSONObject re-emits the *parsed* key between quotes, so keys that need escaping
// (a quote, a backslash, a control character) come out unescaped: the canonical form is not
// valid JSON / denotes a different key.
func TestWitnessCanonicalKeyEscaping(t *testing.T) {
	for _, in := range []string{`{"a\"b":1}`, `{"a\\b":1}`, `{"\u0001":1}`} {
		out, err := CanonicalJSON([]byte(in))
		t.Logf("%s -> %q err=%v", in, out, err)
		var a, b map[string]int
		if err != nil || json.Unmarshal([]byte(in), &a) != nil {
			t.Fatalf("setup: %v", err)
		}
		if err := json.Unmarshal(out, &b); err != nil {
			t.Errorf("canonical form of %s is not valid JSON: %v", in, err)
			continue
		}
		for k := range a {
			if _, ok := b[k]; !ok {
				t.Errorf("canonical form of %s lost key %q", in, k)
			}
		}
	}
}
