package fclient

import (
	"context"
	"net"
	"testing"
	"time"
)

type stubResolver struct{}

func (stubResolver) LookupIPAddr(context.Context, string) ([]net.IPAddr, error) {
	return []net.IPAddr{{IP: net.IPv4(127, 0, 0, 1)}}, nil
}

// F20: the evict-to-make-room loop of DNSCache.lookup only ends when it finds an entry expiring
// before now+duration; with size 0 (nothing to evict) it spins forever while holding the mutex,
// so the first lookup never returns and every other user of the cache blocks on the lock.
func TestWitnessDNSCacheEvictionLoop(t *testing.T) {
	c := NewDNSCache(0, time.Minute, nil, nil)
	c.resolver = stubResolver{}
	done := make(chan struct{})
	go func() {
		c.lookup(context.Background(), "example.org")
		close(done)
	}()
	select {
	case <-done:
	case <-time.After(2 * time.Second):
		t.Fatalf("DNSCache.lookup did not return within 2s (eviction loop spins with the lock held)")
	}
}
