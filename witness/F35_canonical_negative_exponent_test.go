package gomatrixserverlib

import "testing"

// F35: CompactJSON's "negative zero" rule also fires on the sign of an exponent whose first digit is 0:
// 1e-05 canonicalises to 1e05 (0.00001 becomes 100000), so the canonical form does not denote the same value,
// and a signature over {"a":1e-05} also verifies {"a":1e05}. (in package gomatrixserverlib)
func TestWitnessCanonicalNegativeExponent(t *testing.T) {
	out, err := CanonicalJSON([]byte(`{"a":1e-05}`))
	if err != nil {
		t.Fatal(err)
	}
	if string(out) != `{"a":1e-05}` {
		t.Fatalf("canonical form changed the value: %s", out)
	}
}
