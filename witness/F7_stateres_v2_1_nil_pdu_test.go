package gomatrixserverlib

import (
	"testing"

	"github.com/matrix-org/gomatrixserverlib/spec"
)

// F7: state resolution v2.1 collects the conflicted subgraph by looking event IDs up in the map of
// auth events; a conflicted event that is not itself among the supplied auth events yields a nil
// PDU, which the set then dereferences.
func TestWitnessStateResV21NilPDU(t *testing.T) {
	sk := func(s string) *string { return &s }
	mk := func(id, typ, key, sender, content string, auth []string) PDU {
		return &eventV2{eventV1: eventV1{roomVersion: RoomVersionV12, EventIDRaw: id, eventFields: eventFields{RoomID: "!r:a", SenderID: sender, Type: typ, StateKey: sk(key), Content: []byte(content), OriginServerTS: 1}}, AuthEvents: auth, PrevEvents: []string{}}
	}
	create := mk("$create", "m.room.create", "", "@u:a", `{"creator":"@u:a"}`, []string{})
	join := mk("$join", "m.room.member", "@u:a", "@u:a", `{"membership":"join"}`, []string{"$create"})
	topicA := mk("$topicA", "m.room.topic", "", "@u:a", `{"topic":"a"}`, []string{"$create", "$join"})
	topicB := mk("$topicB", "m.room.topic", "", "@u:a", `{"topic":"b"}`, []string{"$create", "$join"})
	uid := func(roomID spec.RoomID, senderID spec.SenderID) (*spec.UserID, error) { return spec.NewUserID(string(senderID), true) }
	defer func() {
		if r := recover(); r != nil {
			t.Fatalf("PANIC: %v", r)
		}
	}()
	res := ResolveStateConflictsV2New(StateResV2_1,
		[][]PDU{{create, join, topicA}, {create, join, topicB}},
		[]PDU{create, join}, uid, func(string) bool { return false })
	t.Logf("%d events resolved", len(res))
}
