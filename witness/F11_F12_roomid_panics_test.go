package gomatrixserverlib

import "testing"

// F11: a v10 event whose room_id passes checkID ("!" sigil, length) but is not a valid room ID
// is accepted by NewEventFromUntrustedJSON; RoomID() then panics.
func TestWitnessRoomIDPanicV10(t *testing.T) {
	ev, err := MustGetRoomVersion(RoomVersionV10).NewEventFromUntrustedJSON([]byte(`{"type":"m.room.message","room_id":"!a:b c","sender":"@u:a","content":{},"auth_events":[],"prev_events":[],"depth":1,"origin_server_ts":1,"hashes":{"sha256":"AAAA"}}`))
	if err != nil {
		t.Skipf("rejected at parse: %v", err)
	}
	defer func() {
		if r := recover(); r != nil {
			t.Fatalf("PANIC in RoomID(): %v", r)
		}
	}()
	_ = ev.RoomID()
}

// F12: the same for the v12 format with a domainless but malformed room ID.
func TestWitnessRoomIDPanicV12(t *testing.T) {
	ev, err := MustGetRoomVersion(RoomVersionV12).NewEventFromUntrustedJSON([]byte(`{"type":"m.room.message","room_id":"!a:b c","sender":"@u:a","content":{},"auth_events":[],"prev_events":[],"depth":1,"origin_server_ts":1,"hashes":{"sha256":"AAAA"}}`))
	if err != nil {
		t.Skipf("rejected at parse: %v", err)
	}
	defer func() {
		if r := recover(); r != nil {
			t.Fatalf("PANIC in RoomID(): %v", r)
		}
	}()
	_ = ev.RoomID()
}
