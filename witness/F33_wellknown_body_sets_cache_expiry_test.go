package fclient

import (
	"context"
	"net/http"
	"net/http/httptest"
	"strings"
	"testing"
	"time"

	"github.com/matrix-org/gomatrixserverlib/spec"
)

// F33: WellKnownResult.CacheExpiresAt has no JSON tag, so json.Unmarshal of the well-known body overwrites
// the expiry LookupWellKnown has just computed from Cache-Control / Expires: the remote server picks its own
// cache lifetime with a "CacheExpiresAt" member, whatever its headers say. (in package fclient)
func TestWitnessWellKnownBodySetsCacheExpiry(t *testing.T) {
	ts := httptest.NewTLSServer(http.HandlerFunc(func(w http.ResponseWriter, r *http.Request) {
		w.Header().Set("Cache-Control", "max-age=60")
		_, _ = w.Write([]byte(`{"m.server":"delegated.example:8448","CacheExpiresAt":4102444800}`))
	}))
	defer ts.Close()
	saved := http.DefaultTransport
	http.DefaultTransport = ts.Client().Transport
	defer func() { http.DefaultTransport = saved }()

	res, err := LookupWellKnown(context.Background(), spec.ServerName(strings.TrimPrefix(ts.URL, "https://")))
	if err != nil {
		t.Fatal(err)
	}
	now := time.Now().Unix()
	if res.CacheExpiresAt < now+55 || res.CacheExpiresAt > now+65 {
		t.Fatalf("cache lifetime not taken from max-age=60: expires %d s from now", res.CacheExpiresAt-now)
	}
}
