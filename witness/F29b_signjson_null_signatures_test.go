package gomatrixserverlib

import (
	"crypto/ed25519"
	"testing"
)

// F29b: SignJSON panics when the object carries "signatures": null (the decoded outer map is nil).
func TestWitnessSignJSONNullSignatures(t *testing.T) {
	defer func() {
		if r := recover(); r != nil {
			t.Fatalf("PANIC: %v", r)
		}
	}()
	_, priv, _ := ed25519.GenerateKey(nil)
	out, err := SignJSON("example.org", "ed25519:1", priv, []byte(`{"a":1,"signatures":null}`))
	t.Logf("out=%s err=%v", out, err)
}
