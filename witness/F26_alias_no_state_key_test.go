package gomatrixserverlib

import (
	"testing"
	"github.com/matrix-org/gomatrixserverlib/spec"
)

func TestWitnessAliasNoStateKey(t *testing.T) {
	defer func() {
		if r := recover(); r != nil {
			t.Fatalf("PANIC: %v", r)
		}
	}()
	create := &eventV2{eventV1: eventV1{roomVersion: RoomVersionV10, EventIDRaw: "$e", eventFields: eventFields{RoomID: "!r:a", SenderID: "@u:a", Type: "m.room.create", StateKey: strp(""), Content: []byte(`{"creator":"@u:a"}`)}}}
	alias := &eventV2{eventV1: eventV1{roomVersion: RoomVersionV10, EventIDRaw: "$e", eventFields: eventFields{RoomID: "!r:a", SenderID: "@u:a", Type: "m.room.aliases", Content: []byte(`{}`)}}}
	p, _ := NewAuthEvents([]PDU{create})
	err := Allowed(alias, p, func(roomID spec.RoomID, senderID spec.SenderID) (*spec.UserID, error) {
		return spec.NewUserID(string(senderID), true)
	})
	t.Logf("err=%v", err)
}
func strp(s string) *string { return &s }
