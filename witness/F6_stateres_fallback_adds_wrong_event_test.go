package gomatrixserverlib

import (
	"testing"

	"github.com/matrix-org/gomatrixserverlib/spec"
)

// F6: when no create event has been resolved yet, authAndApplyEvents falls back to the event's own
// (non-rejected) auth events - but adds the event being checked itself instead of the auth event.
// The creator's join, whose only auth event is the create event, is therefore checked against a
// provider without a create event and dropped.
func TestWitnessStateResFallbackAddsWrongEvent(t *testing.T) {
	sk := func(s string) *string { return &s }
	create := &eventV2{eventV1: eventV1{roomVersion: RoomVersionV10, EventIDRaw: "$create", eventFields: eventFields{RoomID: "!r:a", SenderID: "@u:a", Type: "m.room.create", StateKey: sk(""), Content: []byte(`{"creator":"@u:a"}`)}}, AuthEvents: []string{}, PrevEvents: []string{}}
	join := &eventV2{eventV1: eventV1{roomVersion: RoomVersionV10, EventIDRaw: "$join", eventFields: eventFields{RoomID: "!r:a", SenderID: "@u:a", Type: "m.room.member", StateKey: sk("@u:a"), Content: []byte(`{"membership":"join"}`)}}, AuthEvents: []string{"$create"}, PrevEvents: []string{"$create"}}
	uid := func(roomID spec.RoomID, senderID spec.SenderID) (*spec.UserID, error) { return spec.NewUserID(string(senderID), true) }
	authProvider, _ := NewAuthEvents(nil)
	roomID, _ := spec.NewRoomID("!r:a")
	r := stateResolverV2{
		authProvider:              authProvider,
		authEventMap:              map[string]PDU{"$create": create},
		conflictedEventMap:        map[string]PDU{},
		powerLevelContents:        map[string]*PowerLevelContent{},
		powerLevelMainlinePos:     map[string]int{},
		resolvedThirdPartyInvites: map[string]PDU{},
		resolvedMembers:           map[spec.SenderID]PDU{},
		resolvedOthers:            map[StateKeyTuple]PDU{},
		isRejectedFn:              func(string) bool { return false },
		isRejectedCache:           map[string]bool{},
	}
	r.allower = newAllowerContext(r.authProvider, uid, *roomID)
	r.authAndApplyEvents(join)
	if r.resolvedMembers["@u:a"] == nil {
		c, _ := r.authProvider.Create()
		t.Fatalf("the creator's join was not applied: provider create event = %v (the fallback added the join itself instead of its auth event)", c)
	}
}
