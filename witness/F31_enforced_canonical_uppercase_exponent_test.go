package gomatrixserverlib

import "testing"

// F31: the enforced canonical-JSON check (room versions 6+) rejects numbers written with '.' or
// a lower-case exponent, but accepts an upper-case exponent: 1E3 is not an integer literal.
func TestWitnessEnforcedCanonicalUppercaseExponent(t *testing.T) {
	for _, in := range []string{`{"a":1e3}`, `{"a":1E3}`, `{"a":1.0}`} {
		out, err := EnforcedCanonicalJSON([]byte(in), RoomVersionV10)
		t.Logf("%s -> %s err=%v", in, out, err)
		if in == `{"a":1E3}` && err == nil {
			t.Errorf("non-integer literal 1E3 accepted by the enforced check")
		}
	}
}
