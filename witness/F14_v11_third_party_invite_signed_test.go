package gomatrixserverlib

import (
	"strings"
	"testing"
)

// F14: room version 11 (MSC2176) keeps content.third_party_invite.signed of m.room.member events;
// redactEventJSONV5 drops the whole third_party_invite object.
func TestWitnessV11ThirdPartyInviteSigned(t *testing.T) {
	in := `{"type":"m.room.member","room_id":"!r:a","sender":"@u:a","state_key":"@v:a","content":{"membership":"invite","third_party_invite":{"display_name":"x","signed":{"mxid":"@v:a","token":"t","signatures":{"a":{"ed25519:1":"s"}}}}}}`
	out, err := MustGetRoomVersion(RoomVersionV11).RedactEventJSON([]byte(in))
	if err != nil {
		t.Fatal(err)
	}
	t.Logf("redacted: %s", out)
	if !strings.Contains(string(out), `"signed"`) {
		t.Fatalf("third_party_invite.signed was removed by the v11 redaction algorithm")
	}
}
